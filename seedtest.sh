#!/bin/bash
# seedtest.sh <seed-id> <worktree> <property>...  : confirm a seeded change and run the checks against it
export GOFLAGS=-mod=mod GOPROXY=off GOSUMDB=off GOTOOLCHAIN=local
id=$1; wt=$2; shift 2
mkdir -p /verif/seeded/$id
cp $wt/_seed/patch.diff /verif/seeded/$id/patch.diff
cp $wt/_seed/demo_test.go /verif/seeded/$id/demo_test.go
cp $wt/_seed/notes.md /verif/seeded/$id/notes.md 2>/dev/null
cd $wt
git checkout -q -- . 2>/dev/null
git apply _seed/patch.diff || { echo "patch does not apply"; exit 3; }
cp _seed/demo_test.go zz_seed_demo_test.go
demo=$(grep -o 'func Test[A-Za-z0-9_]*' zz_seed_demo_test.go | sed 's/func //' | paste -sd'|')
suite_with=$(go test -vet=off -count=1 -skip "^($demo)\$" ./... 2>&1 | tail -1)
demo_with=$(timeout 300 go test -vet=off -count=1 -run "^($demo)\$" ./... 2>&1 | tail -1)
git apply -R _seed/patch.diff
demo_without=$(timeout 300 go test -vet=off -count=1 -run "^($demo)\$" ./... 2>&1 | tail -1)
git apply _seed/patch.diff
echo "suite(with change): $suite_with"
echo "demo(with change):  $demo_with"
echo "demo(without):      $demo_without"
# run the checks against the change
cd /repo && git apply /verif/seeded/$id/patch.diff || { echo "cannot apply to /repo"; exit 3; }
rm -rf /tmp/evbak && cp -r /verif/evidence /tmp/evbak
res=""
for p in "$@"; do
  (cd /verif && ./check $p > /tmp/seedrun_${id}_$p.log 2>&1); rc=$?
  res="$res $p:exit=$rc"
  grep -h "^VIOLATION\|^KNOWN\|MISMATCH\|UNSUPPORTED\|BOUND\|INCONCLUSIVE\|VACUOUS" /tmp/seedrun_${id}_$p.log | cut -c1-260 | head -6
done
cd /repo && git checkout -- . && git status --short | head -3
rm -rf /verif/evidence && mv /tmp/evbak /verif/evidence
echo "RESULT seed=$id$res"
python3 - <<PY
import json
json.dump({"seed":"$id","breaks_property":"$id".split('_')[0],"suite_with_change":"""$suite_with""","demo_with_change":"""$demo_with""","demo_without_change":"""$demo_without""","checks_run":"""$res""".split()}, open("/verif/seeded/$id/meta.json","w"), indent=1)
PY
