#!/usr/bin/env python3
# Regenerates MANIFEST.json from the table below (claimed properties) so that it stays valid.
import json
claimed = {
 "C20": ("shutdown races explored with a preemption bound of 2 (quick) / 3 (thorough): CloseAndDelete / last Close / DropDataStore against a writer, a feed start and a fired expiry timer: no panic path, no deadlock, no goroutine left running or blocked, registry and other buckets usable afterwards", "view updates not yet encoded; more than 3 threads outside; schedules not replayed natively"),
 "C01": ("every KV write entry point, one step from an arbitrary invariant-satisfying bucket (2 collections sharing keys, 2 symbolic document slots + 1 spare): success/refusal condition, read-back body/expiry/JSON flag, frame (no other row or table changes), error => whole database unchanged", "1-step(Inv) over a relational stub of SQLite; bodies opaque; clock readings < 2^62; rev < 2^62"),
 "C02": ("CAS-conditional entry points, one step from an arbitrary state with a fully symbolic expected CAS (covers 0, current, stale, never-issued): applied iff current, refused => unchanged", "plus the two-writer races WriteCas||WriteCas and Remove||WriteCas on a version both hold (preemption bound 2/3): never both applied"),
 "C03": ("two client goroutines through two handles (copy()) on one key, schedule explored by the executor with context switches before every lock / SQL / channel / condition operation and a preemption bound of 2 (quick) / 3 (thorough), data symbolic: Incr||Incr (in-memory and on-disk connection budgets) never loses an increment, Update||Update never loses an update, a read concurrent with a write returns the old or the new version", "schedules are not replayed natively; more than 2 client threads / preemption bound outside; sequentially consistent memory between visible actions"),
 "C04": ("HLC kernel for all 64-bit highestTime < 2^63 and all clock-reading sequences of length 4; per write entry point the stored CAS is the fresh HLC value and both high-water marks record it", "counter wrap at 2^63 outside; reopen after close and after kill with a fresh HLC and arbitrary clock: next CAS above every earlier one; two concurrent writers get distinct CAS values in commit order"),
 "C05": ("tombstone coherence as an inductive invariant (tombstone flag iff no body, delete keeps exactly system xattrs and clears expiry, body over tombstone drops xattrs) preserved by every KV write entry point", "xattr names over a 2-element universe (closed world)"),
 "C06": ("insert-style entry points (Add, AddRaw, WriteCas AddOnly / CAS 0) from an arbitrary invariant state: succeed iff no body, refused => every document untouched", "relies on the C05 invariant for 'deleted by any path'"),
 "C07": ("body-only writers (SetRaw, WriteCas, Incr) leave all xattrs of a live document byte-for-byte intact", "xattr entry points pending"),
 "C08": ("live feed, sequential part: for every KV and xattr write entry point from an arbitrary state, with real dcpFeed queues registered through the writing handle, a second handle (copy()) and another collection: exactly one event per successful mutation on each feed of the collection, none elsewhere, none on failure/refusal, and the event's key/opcode/body+xattrs encoding/datatype/CAS/expiry/revision equal the post-state row", "plus two concurrent writers and one feed (preemption bound 2/3): events reach the queue in increasing CAS order"),
 "C09": ("backfill over an arbitrary invariant-satisfying table (2 symbolic rows quick, 3 thorough) and arbitrary start CAS: one event per document of the collection with CAS >= start, in CAS order, each field-equal to the live-event oracle for that row", "plus StartDCPFeed(backfill) racing a writer (preemption bound 2/3): the writer's version is delivered by backfill or live"),
 "C10": ("scoped to rosmar's own code: on the on-disk configuration (8 pooled connections) with up to 1 (quick) / 2 (thorough) symbolic Begin/Exec/Commit faults (BUSY or I/O error), every KV write entry point commits all of its effects (row, CAS, expiry, revision, both high-water marks) in exactly one commit before returning success, and commits nothing and changes nothing when it returns an error; BUSY retries included", "physical durability of a committed SQLite/WAL transaction across kill -9 is trusted (cgo/OS, not encodable); reopen after close/kill keeps data, UUID, expiry and re-arms the expiry timer"),
 "C18": ("WriteSubDoc / SubdocInsert / GetSubDocRaw executed as real code over a JSON-object model of the document (property-name universe of 2, nesting depth 2, member values opaque canonical JSON): top-level and nested paths, set / remove / insert, any CAS argument: only the addressed property changes, every sibling and other top-level property is preserved, CAS honoured, insert refuses an existing property and a missing document, failure changes nothing", "writing the JSON value null left open; concurrent writers of different properties and the path parser on arbitrary strings not yet encoded"),
 "C19": ("SELECT id, body, xattrs FROM $_keyspace (and WHERE id = $k) over an arbitrary two-collection table, in-memory (pre-recorded iterator) and on-disk (streaming iterator): rows are exactly the live documents of the collection, each once, with current id/body/xattrs", "JSON-property filters use uninterpreted extraction; 2 document slots"),
 "C11": ("frame condition of every KV write entry point with the same key present in two collections: no row of another collection, no other table, and not the other collection's high-water mark change", "DropDataStore, views, queries pending"),
 "C13": ("bounded model checking from the empty registry through the real OpenBucket/Close/CloseAndDelete (URL handling evaluated natively, symbolic file system, sql.Open on a store registry): every sequence of 4 (quick) / 5 (thorough) operations over up to 4 handles, in-memory and on-disk: open-mode table, refusal of another URL, closed handles fail with the bucket-closed error, every other handle keeps working, data persists until CloseAndDelete, which removes data and registry entry", "one bucket name; OpenBucket racing Close explored with preemption bound 2/3; on-disk sequences are not replayed natively"),
 "C14": ("expiry arithmetic for every 32-bit expiry and every clock reading; expiry-manager scheduling keeps the earliest deadline; after every write entry point (incl. Touch, PreserveExpiry) the timer is armed at or before the document's expiry; a firing timer tombstones exactly the documents whose expiry has passed and re-arms for the earliest remaining one", "Go runtime timer latency trusted (claim is 'armed with deadline <= T'); reopen arming not yet encoded"),
 "C15": ("a checkpointed feed (resume mode) on the real registry/bucket, stopped by its terminator at every point the schedule allows (preemption bound 1 quick / 2 thorough) while a writer makes two writes, then restarted: the persisted checkpoint never exceeds the highest CAS delivered and the two runs together deliver the final version of every document", "one stop/restart, one writer goroutine; schedules not replayed natively"),
 "C16": ("feeds on the real registry/bucket with two handles: terminator ends exactly that feed (done channel closed, callback silent, other feed unaffected), a dump ends by itself, CloseAndDelete and last on-disk Close end every feed whichever handle started it and leave no goroutine, and dropping another collection / closing the starting handle / ending another feed neither stops nor starves a running feed, whichever handle writes afterwards", "operation orders enumerated (choices), background goroutines run to quiescence between steps; multi-collection Bucket.StartDCPFeed not yet encoded"),
 "C17": ("revision number +1 (1 on creation) for every KV write entry point from an arbitrary state", "feed/virtual-xattr agreement pending"),
}
notyet = {
 "C12": "view harnesses not registered yet",
}
checks=[]
for pid,(text,note) in sorted(claimed.items()):
    checks.append({
      "property_id": pid,
      "quick_cmd": f"./check {pid}",
      "thorough_cmd": f"./check {pid} --thorough",
      "evidence_file": f"/verif/evidence/{pid}.json",
      "replay_cmd_template": "./check --replay {path}",
      "engine": "gosmt",
      "level_claimed": {"category": "model_checking",
        "text": "bounded symbolic execution of the real Go code (go/ssa) over a symbolic database, every assertion discharged by z3 for all values within the stated bounds; " + text,
        "design_ref": "DESIGN.md section 6 " + pid},
      "level_note": "trusted base: relational stub of SQLite/database-sql (engine/sql*.go), JSON/xattr uninterpreted-function model, stubs listed in evidence.assumptions; " + note,
      "technique": "SSA symbolic execution + SMT (z3), bounded; counterexamples replayed natively",
    })
m={"version":1,
 "setup_cmd":"cd /verif/engine && GOFLAGS=-mod=mod GOPROXY=off GOSUMDB=off GOTOOLCHAIN=local go build -o /verif/bin/gosmt .",
 "hooks":{"guard":"verif","enable":"harness files are injected by build overlay as /repo/zz_verif_*.go with -tags verif (nothing is written into /repo)","baseline_off_cmd":"cd /repo && go test -vet=off -count=1 ./...","source_commits":[],"add_only":True},
 "engines":[{"name":"gosmt","path":"/verif/engine","serves_properties":sorted(claimed),"kind_free_text":"own go/ssa symbolic executor emitting SMT-LIB2 to z3 4.8.12 (z3 -in), relational stub interpreting the SQL text harvested from the SSA, native replay through go test -overlay"}],
 "checks":checks,
 "not_applicable":[{"property_id":k,"reason":v} for k,v in sorted(notyet.items())],
 "notes":"exit 2 from a check means the check itself could not decide (never used as a pass)"}
json.dump(m,open("/verif/MANIFEST.json","w"),indent=1)
