import json,sys
v=json.load(open(sys.argv[1]))
m=v['model']
print(v.get('harness'),'|',v.get('label'),'|',v.get('kind'),v.get('detail'))
for k in sorted(m):
    if '.doc' in k and m.get(k.split('.doc')[0]+'.doc'+k.split('.doc')[1].split('.')[0]+'.present')=='b:false': continue
    print('  ',k,'=',repr(m[k])[:80])
