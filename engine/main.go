package main

import (
	"flag"
	"fmt"
	"os"
	"regexp"
	"runtime"
	"sort"
	"strconv"
	"time"

	"golang.org/x/tools/go/ssa"
)

func main() {
	repo := flag.String("repo", "/repo", "repository root")
	hdir := flag.String("harness", "/verif/harness", "harness directory")
	pat := flag.String("run", "", "regexp selecting harness functions")
	prop := flag.String("property", "", "property id (selects Harness_<id>_*)")
	thorough := flag.Bool("thorough", false, "thorough tier")
	workers := flag.Int("j", runtime.NumCPU(), "workers")
	solver := flag.String("solver", "z3", "solver binary")
	timeout := flag.Int("timeout", 60000, "per-query timeout ms")
	maxPaths := flag.Int("maxpaths", 20000, "path limit per harness")
	list := flag.Bool("list", false, "list harnesses")
	logSMT := flag.String("logsmt", "", "prefix for SMT logs")
	evidence := flag.String("evidence", "", "evidence file to write")
	replayDir := flag.String("replays", "/verif/replays", "directory for replay models")
	known := flag.String("known", "/verif/known_findings.json", "known findings file")
	noReplay := flag.Bool("noreplay", false, "skip native replay")
	replayFile := flag.String("replay", "", "replay one model file natively and exit")
	deadline := flag.Int("deadline", 0, "seconds after which exploration stops and what was found is reported (0 = none)")
	flag.Parse()

	if *replayFile != "" {
		os.Exit(replayOnly(*repo, *hdir, *replayFile))
	}

	t0 := time.Now()
	L, err := loadRepo(*repo, *hdir)
	if err != nil {
		fmt.Fprintln(os.Stderr, "cannot build:", err)
		os.Exit(2)
	}
	loadT := time.Since(t0)

	var re *regexp.Regexp
	if *pat != "" {
		re = regexp.MustCompile(*pat)
	} else if *prop != "" {
		re = regexp.MustCompile("^Harness_" + *prop + "_")
	}
	var sel []*ssa.Function
	replayThorough = *thorough
	defer cleanupReplay()
	for _, h := range L.harnesses() {
		allHarnessNames = append(allHarnessNames, h.Name())
		if re == nil || re.MatchString(h.Name()) {
			if !*thorough && regexp.MustCompile(`_T$`).MatchString(h.Name()) {
				continue
			}
			sel = append(sel, h)
		}
	}
	if *list {
		for _, h := range sel {
			fmt.Println(h.Name())
		}
		return
	}
	if len(sel) == 0 {
		fmt.Fprintln(os.Stderr, "no harness selected")
		os.Exit(2)
	}
	seed, _ := strconv.ParseInt(os.Getenv("VERIF_SEED"), 10, 64)
	var dl time.Time
	if *deadline > 0 {
		dl = t0.Add(time.Duration(*deadline) * time.Second)
	}
	cfg := &RunCfg{Deadline: dl, Workers: *workers, SolverBin: *solver, TimeoutMs: *timeout, LiveTimeoutMs: 3000, Thorough: *thorough,
		MaxPaths: *maxPaths, LoopBound: 40, MaxSteps: 2000000, MaxVisible: 400, Seed: seed, LogSMT: *logSMT}

	var runs []*HarnessRun
	for _, h := range sel {
		r := runHarness(L, h, cfg)
		runs = append(runs, r)
		fmt.Fprintf(os.Stderr, "%-40s paths=%d done=%d infeasible=%d queries=%d solver=%.1fs wall=%.1fs viol=%d unknown=%d bound=%d unsup=%d\n",
			r.Name, r.Paths, r.Completed, r.Infeasible, r.Queries, r.SolverTime.Seconds(), r.Wall.Seconds(), len(r.Violations), r.Unknowns, len(r.Bound), len(r.Unsupported))
	}
	if os.Getenv("GOSMT_FORKS") != "" {
		for _, r := range runs {
			type kv struct {
				k string
				v int
			}
			var l []kv
			for k, v := range r.ForkSites {
				l = append(l, kv{k, v})
			}
			sort.Slice(l, func(i, j int) bool { return l[i].v > l[j].v })
			for i, x := range l {
				if i < 25 {
					fmt.Fprintf(os.Stderr, "  fork %6d  %s\n", x.v, x.k)
				}
			}
		}
	}
	code := finish(L, runs, cfg, *prop, *evidence, *replayDir, *known, *repo, *hdir, !*noReplay, loadT, time.Since(t0))
	cleanupReplay()
	os.Exit(code)
}
