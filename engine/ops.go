package main

import (
	"fmt"
	"go/token"
	"go/types"

	"golang.org/x/tools/go/ssa"
)

// ---------- equality ----------

// valEq returns a Bool term for Go's == on two values.
func (e *Exec) valEq(a, b Val) *Term {
	switch x := a.(type) {
	case nil:
		return mkBool(isNilVal(b))
	case *Term:
		if y, ok := b.(*Term); ok {
			return tEq(x, y)
		}
	case *PtrV:
		switch y := b.(type) {
		case *PtrV:
			return mkBool(samePtr(x, y))
		case nil:
			return mkBool(x.isNil())
		case *NativeV:
			return tFalse
		}
	case *NativeV:
		switch y := b.(type) {
		case *NativeV:
			return mkBool(x == y)
		case *PtrV:
			return mkBool(false && y.isNil())
		case nil:
			return tFalse
		}
	case *StructV:
		y := b.(*StructV)
		var cs []*Term
		for i := range x.F {
			cs = append(cs, e.valEq(x.F[i], y.F[i]))
		}
		return tAnd(cs...)
	case *ArrayV:
		y := b.(*ArrayV)
		var cs []*Term
		for i := range x.E {
			cs = append(cs, e.valEq(x.E[i], y.E[i]))
		}
		return tAnd(cs...)
	case *IfaceV:
		y, ok := b.(*IfaceV)
		if !ok {
			if b == nil {
				return mkBool(x.T == nil)
			}
			return tFalse
		}
		if x.T == nil || y.T == nil {
			return mkBool(x.T == nil && y.T == nil)
		}
		if x.T == sentinelType || y.T == sentinelType {
			if x.T != y.T {
				return tFalse
			}
			return mkBool(x.V.(*NativeV).Data.(string) == y.V.(*NativeV).Data.(string))
		}
		if !types.Identical(x.T, y.T) {
			return tFalse
		}
		return e.valEq(x.V, y.V)
	case *MapV:
		if y, ok := b.(*MapV); ok {
			if x.isNil || y.isNil {
				return mkBool(x.isNil && y.isNil)
			}
			return mkBool(x == y)
		}
	case *ChanV:
		if y, ok := b.(*ChanV); ok {
			if x.isNil || y.isNil {
				return mkBool(x.isNil && y.isNil)
			}
			return mkBool(x == y)
		}
	case *FuncV:
		if y, ok := b.(*FuncV); ok {
			return mkBool(x == nil && y == nil)
		}
		return mkBool(x == nil && isNilVal(b))
	case *SliceV:
		if y, ok := b.(*SliceV); ok {
			// only comparison with nil is legal in Go
			if y.isNil {
				return mkBool(x.isNil)
			}
			if x.isNil {
				return mkBool(y.isNil)
			}
		}
	case *BytesV:
		if y, ok := b.(*BytesV); ok {
			// comparison with nil
			if y.Nil.IsConst() && y.Nil.B {
				return x.Nil
			}
			if x.Nil.IsConst() && x.Nil.B {
				return y.Nil
			}
		}
	case *TimeV:
		if y, ok := b.(*TimeV); ok {
			return tEq(x.Sec, y.Sec)
		}
	}
	panic(pathEnd{kind: "unsupported", msg: fmt.Sprintf("valEq %T vs %T", a, b)})
}

func isNilVal(v Val) bool {
	switch x := v.(type) {
	case nil:
		return true
	case *PtrV:
		return x.isNil()
	case *IfaceV:
		return x.T == nil
	case *MapV:
		return x.isNil
	case *SliceV:
		return x.isNil
	case *ChanV:
		return x.isNil
	case *FuncV:
		return x == nil
	case *BytesV:
		return x.Nil.IsConst() && x.Nil.B
	}
	return false
}

// ---------- binary operators ----------

func (e *Exec) binop(op token.Token, a, b Val, ta, tb types.Type) Val {
	switch op {
	case token.EQL:
		return e.valEq(a, b)
	case token.NEQ:
		return tNot(e.valEq(a, b))
	}
	x, ok1 := a.(*Term)
	y, ok2 := b.(*Term)
	if !ok1 || !ok2 {
		panic(pathEnd{kind: "unsupported", msg: fmt.Sprintf("binop %v on %T,%T", op, a, b)})
	}
	signed := isSignedBasic(ta)
	switch x.S.K {
	case KBool:
		switch op {
		case token.AND, token.LAND:
			return tAnd(x, y)
		case token.OR, token.LOR:
			return tOr(x, y)
		}
	case KBlob:
		if op == token.ADD {
			return tStrConcat(x, y)
		}
	case KStr:
		switch op {
		case token.ADD:
			return tStrConcat(x, y)
		case token.LSS:
			return mkOp("str.<", SBool, x, y)
		case token.LEQ:
			return mkOp("str.<=", SBool, x, y)
		case token.GTR:
			return mkOp("str.<", SBool, y, x)
		case token.GEQ:
			return mkOp("str.<=", SBool, y, x)
		}
	case KInt:
		if y.S.K != KInt {
			y = tBV2Int(y, isSignedBasic(tb)) // shift counts etc.
		}
		switch op {
		case token.ADD:
			return tIntBin("+", x, y)
		case token.SUB:
			return tIntBin("-", x, y)
		case token.MUL:
			return tIntBin("*", x, y)
		case token.QUO:
			if y.IsConst() && y.I.Sign() == 0 {
				panic(goPanic{"integer divide by zero"})
			}
			return tIntBin("div", x, y)
		case token.REM:
			return tIntBin("mod", x, y)
		case token.LSS:
			return tIntCmp("<", x, y)
		case token.LEQ:
			return tIntCmp("<=", x, y)
		case token.GTR:
			return tIntCmp(">", x, y)
		case token.GEQ:
			return tIntCmp(">=", x, y)
		case token.AND, token.OR, token.XOR, token.SHL, token.SHR, token.AND_NOT:
			if x.IsConst() && y.IsConst() {
				xi, yi := x.I.Int64(), y.I.Int64()
				switch op {
				case token.AND:
					return mkInt(xi & yi)
				case token.OR:
					return mkInt(xi | yi)
				case token.XOR:
					return mkInt(xi ^ yi)
				case token.SHL:
					return mkInt(xi << uint(yi))
				case token.SHR:
					return mkInt(xi >> uint(yi))
				case token.AND_NOT:
					return mkInt(xi &^ yi)
				}
			}
			// bitwise on symbolic int: go through BV64
			xb, yb := tInt2BV(x, 64), tInt2BV(y, 64)
			r := e.binop(op, xb, yb, types.Typ[types.Int64], types.Typ[types.Int64]).(*Term)
			return tBV2Int(r, true)
		}
	case KBV:
		if y.S != x.S {
			// shifts may have a differently-typed count
			if y.S.K == KInt {
				y = tInt2BV(y, x.S.W)
			} else {
				y = tBVResize(y, x.S.W, false)
			}
		}
		switch op {
		case token.ADD:
			return tBVBin("bvadd", x, y)
		case token.SUB:
			return tBVBin("bvsub", x, y)
		case token.MUL:
			return tBVBin("bvmul", x, y)
		case token.QUO:
			if y.IsConst() && y.U == 0 {
				panic(goPanic{"integer divide by zero"})
			}
			if signed {
				return tBVBin("bvsdiv", x, y)
			}
			return tBVBin("bvudiv", x, y)
		case token.REM:
			if signed {
				return tBVBin("bvsrem", x, y)
			}
			return tBVBin("bvurem", x, y)
		case token.AND:
			return tBVBin("bvand", x, y)
		case token.OR:
			return tBVBin("bvor", x, y)
		case token.XOR:
			return tBVBin("bvxor", x, y)
		case token.AND_NOT:
			return tBVBin("bvand", x, tBVNot(y))
		case token.SHL:
			return tBVBin("bvshl", x, y)
		case token.SHR:
			if signed {
				return tBVBin("bvashr", x, y)
			}
			return tBVBin("bvlshr", x, y)
		case token.LSS:
			return tBVCmp(ifs(signed, "bvslt", "bvult"), x, y)
		case token.LEQ:
			return tBVCmp(ifs(signed, "bvsle", "bvule"), x, y)
		case token.GTR:
			return tBVCmp(ifs(signed, "bvsgt", "bvugt"), x, y)
		case token.GEQ:
			return tBVCmp(ifs(signed, "bvsge", "bvuge"), x, y)
		}
	}
	panic(pathEnd{kind: "unsupported", msg: fmt.Sprintf("binop %v on sort %v", op, x.S)})
}

func ifs(c bool, a, b string) string {
	if c {
		return a
	}
	return b
}

// ---------- maps ----------

// keyEq returns the equality term of two map keys.
func (e *Exec) keyEq(a, b Val) *Term { return e.valEq(a, b) }

// mapFind forks on which entry (if any) equals the key. Returns index or -1.
func (e *Exec) mapFind(m *MapV, k Val) int {
	for i, en := range m.entries {
		if e.branch(e.keyEq(en.k, k)) {
			return i
		}
	}
	return -1
}

func (e *Exec) mapLookup(m *MapV, k Val) (Val, bool) {
	if m.isNil {
		return nil, false
	}
	i := e.mapFind(m, k)
	if i < 0 {
		return nil, false
	}
	return m.entries[i].v, true
}

func (e *Exec) mapUpdate(mv Val, k, v Val) {
	m := mv.(*MapV)
	if m.isNil {
		panic(goPanic{"assignment to entry in nil map"})
	}
	i := e.mapFind(m, k)
	if i >= 0 {
		m.entries[i].v = v
		return
	}
	m.entries = append(m.entries, &mapEntry{k: k, v: v})
}

func (e *Exec) mapDelete(m *MapV, k Val) {
	if m.isNil {
		return
	}
	i := e.mapFind(m, k)
	if i >= 0 {
		m.entries = append(append([]*mapEntry(nil), m.entries[:i]...), m.entries[i+1:]...)
	}
}

func (e *Exec) newMap() *MapV {
	e.cellCtr++
	return &MapV{id: e.cellCtr}
}

// ---------- range ----------

type rangeIter struct {
	entries []*mapEntry
	str     *Term
	i       int
}

func (e *Exec) rangeInit(v Val) Val {
	switch x := v.(type) {
	case *MapV:
		return &NativeV{Kind: "range", Data: &rangeIter{entries: append([]*mapEntry(nil), x.entries...)}}
	case *Term:
		if x.IsConst() {
			return &NativeV{Kind: "range", Data: &rangeIter{str: x}}
		}
	}
	panic(pathEnd{kind: "unsupported", msg: fmt.Sprintf("range over %T", v)})
}

func (e *Exec) rangeNext(v Val, x *ssa.Next) Val {
	it := v.(*NativeV).Data.(*rangeIter)
	tt := x.Type().(*types.Tuple)
	if x.IsString {
		if it.i >= len(it.str.Str) {
			return TupleV{tFalse, mkInt(0), mkBV(32, 0)}
		}
		i := it.i
		it.i++
		return TupleV{tTrue, mkInt(int64(i)), mkBV(32, uint64(it.str.Str[i]))}
	}
	if it.i >= len(it.entries) {
		return TupleV{tFalse, zeroOrNil(tt.At(1).Type()), zeroOrNil(tt.At(2).Type())}
	}
	en := it.entries[it.i]
	it.i++
	return TupleV{tTrue, en.k, en.v}
}

func zeroOrNil(t types.Type) Val {
	if b, ok := t.(*types.Basic); ok && b.Kind() == types.Invalid {
		return nil
	}
	return zeroVal(t)
}

// ---------- builtins ----------

func (e *Exec) callBuiltin(th *Thread, fr *Frame, name string, args []Val, cc *ssa.CallCommon) Val {
	switch name {
	case "builtin:len":
		switch x := args[0].(type) {
		case *Term:
			return tStrLen(x)
		case *BytesV:
			return tStrLen(x.S)
		case *SliceV:
			return mkInt(int64(x.ln))
		case *MapV:
			return mkInt(int64(len(x.entries)))
		case *ChanV:
			return mkInt(int64(len(x.buf)))
		case *ArrayV:
			return mkInt(int64(len(x.E)))
		case *PtrV:
			return mkInt(int64(len(x.load().(*ArrayV).E)))
		}
	case "builtin:cap":
		switch x := args[0].(type) {
		case *SliceV:
			return mkInt(int64(x.cp))
		case *BytesV:
			return tStrLen(x.S)
		case *ChanV:
			return mkInt(int64(x.cap))
		}
	case "builtin:append":
		switch x := args[0].(type) {
		case *SliceV:
			y := args[1].(*SliceV)
			return e.newSlice(append(append([]Val(nil), x.elems()...), y.elems()...))
		case *BytesV:
			switch y := args[1].(type) {
			case *BytesV:
				if y.Nil.IsConst() && y.Nil.B && x.Nil.IsConst() && x.Nil.B {
					return x
				}
				return &BytesV{Nil: tAnd(x.Nil, tEq(tStrLen(y.S), mkInt(0))), S: tStrConcat(x.S, y.S)}
			case *Term: // append([]byte, string...)
				return &BytesV{Nil: tAnd(x.Nil, tEq(tStrLen(y), mkInt(0))), S: tStrConcat(x.S, y)}
			}
		}
	case "builtin:delete":
		e.mapDelete(args[0].(*MapV), args[1])
		return nil
	case "builtin:close":
		e.chanClose(args[0].(*ChanV))
		return nil
	case "builtin:copy":
		if d, ok := args[0].(*SliceV); ok {
			s := args[1].(*SliceV)
			n := d.ln
			if s.ln < n {
				n = s.ln
			}
			for i := 0; i < n; i++ {
				(&PtrV{c: d.c, path: []int{d.off + i}}).store(s.elems()[i])
			}
			return mkInt(int64(n))
		}
	case "builtin:print", "builtin:println":
		return nil
	case "builtin:ssa:wrapnilchk":
		return args[0]
	case "builtin:min", "builtin:max":
	}
	panic(pathEnd{kind: "unsupported", msg: fmt.Sprintf("builtin %s on %T", name, args[0])})
}

// ---------- channels ----------

func (e *Exec) chanSend(th *Thread, ch *ChanV, v Val) bool {
	if ch.isNil {
		e.block(th, func() bool { return false }, "send on nil chan")
		return false
	}
	e.visibleAction(th, "chan send")
	if ch.closed {
		panic(goPanic{"send on closed channel"})
	}
	// unbuffered channels are modelled as capacity-1 hand-off (stated)
	capn := ch.cap
	if capn == 0 {
		capn = 1
	}
	if len(ch.buf) >= capn {
		e.block(th, func() bool { return ch.closed || len(ch.buf) < capn }, "chan send")
		return false
	}
	ch.buf = append(ch.buf, v)
	return true
}

func (e *Exec) chanRecv(th *Thread, ch *ChanV) (Val, bool, bool) {
	if ch.isNil {
		e.block(th, func() bool { return false }, "recv on nil chan")
		return nil, false, true
	}
	e.visibleAction(th, "chan recv")
	if len(ch.buf) > 0 {
		v := ch.buf[0]
		ch.buf = ch.buf[1:]
		return v, true, false
	}
	if ch.closed {
		return nil, false, false
	}
	e.block(th, func() bool { return ch.closed || len(ch.buf) > 0 }, "chan recv")
	return nil, false, true
}

func (e *Exec) chanClose(ch *ChanV) {
	if ch.isNil {
		panic(goPanic{"close of nil channel"})
	}
	if ch.closed {
		panic(goPanic{"close of closed channel"})
	}
	ch.closed = true
}
