package main

import (
	"fmt"
	"go/types"
	"strings"

	"golang.org/x/tools/go/ssa"
)

// Val is a symbolic Go value. Scalars are *Term; aggregates are immutable
// trees (functional update through cells); reference types are Go pointers to
// mutable engine objects.
type Val interface{}

type StructV struct{ F []Val }
type ArrayV struct{ E []Val }
type TupleV []Val

// Cell is a heap location.
type Cell struct {
	id   int
	v    Val
	name string
}

// PtrV points into a cell, through struct fields / array elements.
type PtrV struct {
	c    *Cell
	path []int
}

func (p *PtrV) isNil() bool { return p == nil || p.c == nil }

// SliceV: concrete-length slice over a cell holding an *ArrayV.
type SliceV struct {
	c       *Cell
	off, ln int
	cp      int
	isNil   bool
}

// BytesV: symbolic []byte.
type BytesV struct {
	Nil *Term // Bool
	S   *Term // String (== "" when Nil)
}

func bytesNil() *BytesV            { return &BytesV{Nil: tTrue, S: mkStr("")} }
func bytesOf(s *Term) *BytesV      { return &BytesV{Nil: tFalse, S: s} }
func bytesConst(s string) *BytesV  { return &BytesV{Nil: tFalse, S: mkStr(s)} }
func bytesIte(c *Term, a, b *BytesV) *BytesV {
	return &BytesV{Nil: tIte(c, a.Nil, b.Nil), S: tIte(c, a.S, b.S)}
}

// MapV: association list; presence is always concrete (the executor forks),
// keys may be symbolic but are pairwise distinct on the path.
type MapV struct {
	id      int
	isNil   bool
	entries []*mapEntry
}
type mapEntry struct {
	k, v Val
}

type IfaceV struct {
	T types.Type // dynamic type; nil => nil interface
	V Val
}

var nilIface = &IfaceV{}

type FuncV struct {
	fn       *ssa.Function
	bindings []Val
	native   string // name of a native stub to call instead
	nativeFn func(e *Exec, th *Thread, args []Val) Val
}

type ChanV struct {
	id     int
	buf    []Val
	cap    int
	closed bool
	isNil  bool
}

// NativeV: engine-owned object (sql handles, errors, timers, JSON values...).
type NativeV struct {
	Kind string
	Data interface{}
}

type TimeV struct{ Sec *Term } // BV64 seconds since epoch

// ---------- type helpers ----------

func isByteSlice(t types.Type) bool {
	if s, ok := t.Underlying().(*types.Slice); ok {
		if b, ok := s.Elem().Underlying().(*types.Basic); ok {
			return b.Kind() == types.Uint8
		}
	}
	return false
}

func isDuration(t types.Type) bool {
	if n, ok := t.(*types.Named); ok {
		return n.Obj().Pkg() != nil && n.Obj().Pkg().Path() == "time" && n.Obj().Name() == "Duration"
	}
	return false
}

func isTimeTime(t types.Type) bool {
	if n, ok := t.(*types.Named); ok {
		return n.Obj().Pkg() != nil && n.Obj().Pkg().Path() == "time" && n.Obj().Name() == "Time"
	}
	return false
}

// sortOf maps a Go scalar type to an SMT sort.
func sortOf(t types.Type) (Sort, bool) {
	b, ok := t.Underlying().(*types.Basic)
	if !ok {
		return Sort{}, false
	}
	switch b.Kind() {
	case types.Bool, types.UntypedBool:
		return SBool, true
	case types.Int, types.UntypedInt:
		return SInt, true
	case types.Int8, types.Uint8:
		return SBV(8), true
	case types.Int16, types.Uint16:
		return SBV(16), true
	case types.Int32, types.Uint32, types.UntypedRune:
		return SBV(32), true
	case types.Int64, types.Uint64, types.Uint, types.Uintptr:
		return SBV(64), true
	case types.String, types.UntypedString:
		return SStr, true
	}
	return Sort{}, false
}

func isSignedBasic(t types.Type) bool {
	b, ok := t.Underlying().(*types.Basic)
	if !ok {
		return false
	}
	return b.Info()&types.IsInteger != 0 && b.Info()&types.IsUnsigned == 0
}

func zeroTerm(s Sort) *Term {
	switch s.K {
	case KBool:
		return tFalse
	case KInt:
		return mkInt(0)
	case KStr:
		return mkStr("")
	default:
		return mkBV(s.W, 0)
	}
}

func zeroVal(t types.Type) Val {
	if isTimeTime(t) {
		return &TimeV{Sec: mkBV(64, 0)}
	}
	if s, ok := sortOf(t); ok {
		return zeroTerm(s)
	}
	switch u := t.Underlying().(type) {
	case *types.Basic:
		if u.Kind() == types.UnsafePointer {
			return &PtrV{}
		}
		if u.Kind() == types.UntypedNil {
			return nil
		}
		if u.Kind() == types.Float64 || u.Kind() == types.Float32 || u.Kind() == types.UntypedFloat {
			return &NativeV{Kind: "float", Data: 0.0}
		}
		panic(fmt.Sprintf("zeroVal: basic %v", u))
	case *types.Struct:
		sv := &StructV{F: make([]Val, u.NumFields())}
		for i := range sv.F {
			sv.F[i] = zeroVal(u.Field(i).Type())
		}
		return sv
	case *types.Array:
		av := &ArrayV{E: make([]Val, u.Len())}
		for i := range av.E {
			av.E[i] = zeroVal(u.Elem())
		}
		return av
	case *types.Pointer:
		return &PtrV{}
	case *types.Slice:
		if isByteSlice(t) {
			return bytesNil()
		}
		return &SliceV{isNil: true}
	case *types.Map:
		return &MapV{isNil: true}
	case *types.Chan:
		return &ChanV{isNil: true}
	case *types.Signature:
		return (*FuncV)(nil)
	case *types.Interface:
		return nilIface
	case *types.Tuple:
		tv := make(TupleV, u.Len())
		for i := range tv {
			tv[i] = zeroVal(u.At(i).Type())
		}
		return tv
	case *types.TypeParam:
		return nilIface
	}
	panic(fmt.Sprintf("zeroVal: %T %v", t.Underlying(), t))
}

// ---------- navigation ----------

func getPath(v Val, path []int) Val {
	for _, i := range path {
		switch x := v.(type) {
		case *StructV:
			v = x.F[i]
		case *ArrayV:
			v = x.E[i]
		default:
			panic(fmt.Sprintf("getPath: cannot index %T", v))
		}
	}
	return v
}

func setPath(v Val, path []int, nv Val) Val {
	if len(path) == 0 {
		return nv
	}
	i := path[0]
	switch x := v.(type) {
	case *StructV:
		n := &StructV{F: append([]Val(nil), x.F...)}
		n.F[i] = setPath(x.F[i], path[1:], nv)
		return n
	case *ArrayV:
		n := &ArrayV{E: append([]Val(nil), x.E...)}
		n.E[i] = setPath(x.E[i], path[1:], nv)
		return n
	}
	panic(fmt.Sprintf("setPath: cannot index %T", v))
}

func (p *PtrV) load() Val {
	if p.isNil() {
		panic(goPanic{"nil pointer dereference"})
	}
	return getPath(p.c.v, p.path)
}

func (p *PtrV) store(v Val) {
	if p.isNil() {
		panic(goPanic{"nil pointer dereference (store)"})
	}
	p.c.v = setPath(p.c.v, p.path, v)
}

func (p *PtrV) sub(i int) *PtrV {
	if p.isNil() {
		panic(goPanic{"nil pointer dereference (field)"})
	}
	np := make([]int, len(p.path)+1)
	copy(np, p.path)
	np[len(p.path)] = i
	return &PtrV{c: p.c, path: np}
}

func (p *PtrV) key() string {
	if p.isNil() {
		return "nil"
	}
	var b strings.Builder
	fmt.Fprintf(&b, "c%d", p.c.id)
	for _, i := range p.path {
		fmt.Fprintf(&b, ".%d", i)
	}
	return b.String()
}

func samePtr(a, b *PtrV) bool {
	if a.isNil() || b.isNil() {
		return a.isNil() && b.isNil()
	}
	return a.key() == b.key()
}

// goPanic is a Go-level panic raised by the interpreted program.
type goPanic struct{ msg string }

// pathEnd aborts the current path.
type pathEnd struct {
	kind string // "infeasible", "bound", "unsupported", "done", "deadlock", "panic"
	msg  string
}

func describe(v Val) string {
	switch x := v.(type) {
	case nil:
		return "nil"
	case *Term:
		s := x.String()
		if len(s) > 80 {
			s = s[:80] + "..."
		}
		return s
	case *BytesV:
		return "bytes(" + describe(x.S) + ")"
	case *PtrV:
		return "ptr:" + x.key()
	case *IfaceV:
		if x.T == nil {
			return "iface(nil)"
		}
		return "iface(" + x.T.String() + ")"
	case *NativeV:
		return "native:" + x.Kind
	}
	return fmt.Sprintf("%T", v)
}
