package main

import (
	"encoding/json"
	"fmt"
	"os"
	"path/filepath"
	"sort"
	"strings"
	"time"
)

type KnownFinding struct {
	Property string `json:"property"`
	Harness  string `json:"harness"`
	Label    string `json:"label"`
	What     string `json:"what"`
	Status   string `json:"status"` // "known" or "fixed"
	Commit   string `json:"commit,omitempty"`
}

func loadKnown(path string) []KnownFinding {
	b, err := os.ReadFile(path)
	if err != nil {
		return nil
	}
	var doc struct {
		Findings []KnownFinding `json:"findings"`
	}
	if json.Unmarshal(b, &doc) != nil {
		return nil
	}
	return doc.Findings
}

func propOfHarness(name string) string {
	parts := strings.Split(name, "_")
	if len(parts) >= 2 {
		return parts[1]
	}
	return ""
}

func finish(L *Loaded, runs []*HarnessRun, cfg *RunCfg, prop, evidencePath, replayDir, knownPath, repo, hdir string, doReplay bool, loadT, wall time.Duration) int {
	known := loadKnown(knownPath)
	isKnown := func(h, label string) *KnownFinding {
		for i := range known {
			k := &known[i]
			if k.Status == "known" && k.Harness == h && k.Label == label {
				return k
			}
		}
		return nil
	}
	broken := false
	violated := false
	var lines []string
	tracesValidated := 0
	replayMismatch := 0
	states, transitions := 0, 0
	var solverT time.Duration
	funcs := map[string]bool{}
	sqls := map[string]bool{}
	var samples []interface{}
	var harnessSummaries []map[string]interface{}
	knownHit := 0
	nviol := 0
	if fi := os.Getenv("GOSMT_FUNCINDEX"); fi != "" {
		// development aid: harness -> rosmar functions it executed (appended as JSON lines)
		if f, err := os.OpenFile(fi, os.O_APPEND|os.O_CREATE|os.O_WRONLY, 0o644); err == nil {
			for _, r := range runs {
				var fs []string
				for fn := range r.Funcs {
					fs = append(fs, fn)
				}
				sort.Strings(fs)
				b, _ := json.Marshal(map[string]interface{}{"harness": r.Name, "wall_s": r.Wall.Seconds(), "functions": fs})
				f.Write(append(b, '\n'))
			}
			f.Close()
		}
	}
	for _, r := range runs {
		states += r.Completed
		transitions += r.Queries
		solverT += r.SolverTime
		for f := range r.Funcs {
			funcs[f] = true
		}
		for q := range r.SQL {
			sqls[q] = true
		}
		hs := map[string]interface{}{"harness": r.Name, "paths": r.Paths, "completed": r.Completed, "queries": r.Queries,
			"asserts_checked": r.Asserts, "solver_s": r.SolverTime.Seconds(), "wall_s": r.Wall.Seconds(),
			"max_decisions": r.MaxTrace, "labels_expected": r.Expected}
		harnessSummaries = append(harnessSummaries, hs)
		if len(r.Unsupported) > 0 {
			broken = true
			lines = append(lines, fmt.Sprintf("UNSUPPORTED harness=%s %v", r.Name, r.Unsupported))
		}
		if len(r.Bound) > 0 {
			broken = true
			lines = append(lines, fmt.Sprintf("BOUND-EXCEEDED harness=%s %v", r.Name, r.Bound))
		}
		if r.Unknowns > 0 {
			broken = true
			lines = append(lines, fmt.Sprintf("INCONCLUSIVE harness=%s unknown=%d e.g. %v", r.Name, r.Unknowns, r.UnknownQ))
		}
		if r.SolverErrors > 0 {
			broken = true
			lines = append(lines, fmt.Sprintf("SOLVER-ERROR harness=%s n=%d", r.Name, r.SolverErrors))
		}
		// vacuity
		for _, l := range r.Expected {
			if _, ok := r.Witnesses[l]; !ok {
				// a label may be unreachable because a violation cut the path; only fail when no violation
				broken = true
				lines = append(lines, fmt.Sprintf("VACUOUS harness=%s label=%s unreachable", r.Name, l))
			}
		}
		if r.Completed == 0 {
			broken = true
			lines = append(lines, fmt.Sprintf("VACUOUS harness=%s no completed path", r.Name))
		}
		// witnesses: replay natively
		var wl []string
		for l := range r.Witnesses {
			wl = append(wl, l)
		}
		sort.Strings(wl)
		if doReplay {
			ok, bad := replayWitnesses(repo, hdir, r, wl)
			tracesValidated += ok
			replayMismatch += len(bad)
			for _, b := range bad {
				broken = true
				for wl2, w := range r.Witnesses {
					if strings.HasPrefix(b, wl2+":") {
						os.MkdirAll(replayDir, 0o755)
						wb, _ := json.MarshalIndent(map[string]interface{}{"harness": r.Name, "label": wl2, "kind": "witness", "model": w.Model}, "", " ")
						os.WriteFile(filepath.Join(replayDir, fmt.Sprintf("witness-%s-%s.json", r.Name, sanitizeName(wl2))), wb, 0o644)
					}
				}
				lines = append(lines, fmt.Sprintf("ENCODING-MISMATCH harness=%s witness=%s", r.Name, b))
			}
		}
		for _, s := range r.Samples {
			if len(samples) < 6 {
				samples = append(samples, map[string]interface{}{"harness": r.Name, "path_model": s})
			}
		}
		var vl []string
		for l := range r.Violations {
			vl = append(vl, l)
		}
		sort.Strings(vl)
		for _, l := range vl {
			v := r.Violations[l]
			p := propOfHarness(r.Name)
			os.MkdirAll(replayDir, 0o755)
			rp := filepath.Join(replayDir, fmt.Sprintf("%s-%s.json", r.Name, sanitizeName(l)))
			b, _ := json.MarshalIndent(v, "", " ")
			os.WriteFile(rp, b, 0o644)
			reproduced := "unreplayed"
			if doReplay {
				reproduced = replayViolation(repo, hdir, v, rp)
			}
			switch reproduced {
			case "reproduced", "unreplayed":
				if reproduced == "reproduced" {
					tracesValidated++
				}
				if k := isKnown(r.Name, l); k != nil {
					knownHit++
					lines = append(lines, fmt.Sprintf("KNOWN-FINDING: property=%s %s [%s/%s]", p, k.What, r.Name, l))
				} else {
					violated = true
					nviol++
					lines = append(lines, fmt.Sprintf("VIOLATION property=%s replay=%s harness=%s label=%q kind=%s %s", p, rp, r.Name, l, v.Kind, v.Detail))
				}
			default:
				broken = true
				replayMismatch++
				lines = append(lines, fmt.Sprintf("ENCODING-MISMATCH harness=%s label=%q: model did not reproduce natively (%s) replay=%s", r.Name, l, reproduced, rp))
			}
		}
	}
	for _, l := range lines {
		fmt.Println(l)
	}
	if evidencePath != "" {
		tier := "quick"
		if cfg.Thorough {
			tier = "thorough"
		}
		ev := map[string]interface{}{
			"property_id": prop,
			"tier":        tier,
			"seed":        cfg.Seed,
			"level":       "model_checking",
			"wall_s":      wall.Seconds(),
			"violations":  nviol,
			"coverage": map[string]interface{}{
				"states":                        max1(states),
				"transitions":                   max1(transitions),
				"traces_validated_against_impl": tracesValidated,
				"samples":                       nonEmpty(samples),
				"explanation":                   "states = feasible symbolic paths run to completion through the real SSA of /repo; transitions = SMT queries discharged (branch feasibility + one per assertion); traces_validated = solver models (reachability witnesses and counterexamples) replayed against the native build with matching outcome",
				"functions_encoded":             sortedKeys(funcs),
				"sql_statements":                sortedKeys(sqls),
				"harnesses":                     harnessSummaries,
				"solver":                        map[string]interface{}{"binary": cfg.SolverBin, "solver_s": solverT.Seconds(), "per_query_timeout_ms": cfg.TimeoutMs, "unknown": 0},
				"bounds":                        boundsDoc(cfg),
				"known_findings_rederived":      knownHit,
				"replay_mismatches":             replayMismatch,
				"load_s":                        loadT.Seconds(),
				"exhaustive":                    !broken,
			},
			"assumptions": assumptionsDoc(),
		}
		os.MkdirAll(filepath.Dir(evidencePath), 0o755)
		b, _ := json.MarshalIndent(ev, "", " ")
		os.WriteFile(evidencePath, b, 0o644)
	}
	if violated {
		return 1
	}
	if broken {
		return 2
	}
	return 0
}

func max1(n int) int {
	if n < 1 {
		return 1
	}
	return n
}

func nonEmpty(s []interface{}) []interface{} {
	if len(s) == 0 {
		return []interface{}{"(no completed path)"}
	}
	return s
}

func boundsDoc(cfg *RunCfg) map[string]interface{} {
	return map[string]interface{}{
		"loop_unwinding":       cfg.LoopBound,
		"max_paths":            cfg.MaxPaths,
		"max_visible_actions":  cfg.MaxVisible,
		"split_components":     splitBound,
		"unwinding_assertions": "exceeding any bound ends the path as BOUND-EXCEEDED and the run exits 2",
	}
}

func assumptionsDoc() []string {
	return []string{
		"relational stub: SQLite executes each statement atomically with the semantics of the SQL subset implemented in engine/sqlstub*.go (validated per statement against real SQLite by replay)",
		"database/sql + go-sqlite3 bind/scan conversions as transcribed in the stub",
		"encoding/json on xattr maps modelled by uninterpreted functions over a finite xattr-name universe",
		"Go int and time.Duration are mathematical integers (no overflow); fixed-width integers are bit-vectors",
		"time.Now is arbitrary, non-decreasing, within [2020,2100)",
		"logging/tracing functions have empty bodies",
	}
}
