package main

import (
	"fmt"
	"os"
	"sort"
	"strings"
	"sync"
	"time"

	"golang.org/x/tools/go/ssa"
)

type Violation struct {
	Harness string            `json:"harness"`
	Label   string            `json:"label"`
	Kind    string            `json:"kind"` // "assert", "panic", "deadlock"
	Model   map[string]string `json:"model"`
	Trace   []int             `json:"trace"`
	Sched   []string          `json:"sched,omitempty"`
	Detail  string            `json:"detail,omitempty"`
	Count   int               `json:"count"`
	SymOnly bool              `json:"sym_only,omitempty"`
}

type Witness struct {
	SymOnly bool            `json:"sym_only,omitempty"`
	Label string            `json:"label"`
	Model map[string]string `json:"model"`
	Trace []int             `json:"trace"`
}

type HarnessRun struct {
	mu         sync.Mutex
	Name       string
	fn         *ssa.Function
	Paths      int
	Completed  int
	Infeasible int
	Queries    int
	SolverTime time.Duration
	Unknowns   int
	Asserts    int
	Bound      []string
	Unsupported []string
	Violations map[string]*Violation
	Witnesses  map[string]*Witness
	AltWitnesses map[string][]*Witness // further candidate models per label (other paths)
	Expected   []string
	Funcs      map[string]bool
	SQL        map[string]bool
	Samples    []map[string]string
	Wall       time.Duration
	SolverErrors int
	MaxTrace   int
	Deadlocks  int
	Preempt    int
	UnknownQ   []string
	ForkSites  map[string]int
}

func (r *HarnessRun) noteUnknown(t *Term) {
	r.mu.Lock()
	defer r.mu.Unlock()
	if len(r.UnknownQ) < 5 {
		s := t.String()
		if len(s) > 300 {
			s = s[:300]
		}
		r.UnknownQ = append(r.UnknownQ, s)
	}
}

type RunCfg struct {
	Workers    int
	SolverBin  string
	TimeoutMs  int
	LiveTimeoutMs int
	Deadline      time.Time // stop exploring (and report what was found) after this instant
	Thorough   bool
	MaxPaths   int
	LoopBound  int
	MaxSteps   int
	MaxVisible int
	Seed       int64
	LogSMT     string
}

func newExec(L *Loaded, s *Solver, cfg *RunCfg, run *HarnessRun, prefix []int, enqueue func([]int)) *Exec {
	e := &Exec{
		L: L, solver: s, decisions: prefix, enqueue: enqueue,
		symCtr: map[string]int{}, globals: map[*ssa.Global]*Cell{},
		mutexes: map[string]*mutexState{}, condWaiters: map[string][]*waitSt{},
		onces: map[string]bool{}, wgs: map[string]int{},
		maxSteps: cfg.MaxSteps, loopBound: cfg.LoopBound, maxVisible: cfg.MaxVisible,
		run: run, funcsRun: map[string]bool{}, sqlSeen: map[string]bool{},
		axiomsDone: map[string]bool{}, world: map[string]interface{}{}, crashAt: -1,
		thorough: cfg.Thorough, fullTimeout: cfg.TimeoutMs,
	}
	return e
}

// runPath executes one path (decision prefix) of a harness.
func (e *Exec) runPath(fn *ssa.Function) (outcome pathEnd) {
	defer func() {
		if r := recover(); r != nil {
			switch x := r.(type) {
			case pathEnd:
				outcome = x
			case goPanic:
				outcome = pathEnd{kind: "panic", msg: x.msg}
			default:
				panic(r)
			}
		}
	}()
	e.solver.Reset()
	main := &Thread{id: 0, name: "main"}
	e.threads = []*Thread{main}
	e.cur = main
	// package initialisation (rosmar's own init only)
	initFn := e.L.pkg.Func("init")
	e.pushFrame(main, initFn, nil, nil)
	if st := e.runLoop(func() bool { return len(main.frames) == 0 }); st != "ok" {
		return pathEnd{kind: "unsupported", msg: "init did not finish: " + st}
	}
	main.done = false
	e.funcsRun = map[string]bool{}
	e.steps = 0
	e.pushFrame(main, fn, nil, nil)
	st := e.runLoop(func() bool { return main.done || len(main.frames) == 0 })
	if st == "deadlock" {
		var bl []string
		for _, t := range e.threads {
			if !t.done && t.blocked != nil {
				bl = append(bl, fmt.Sprintf("t%d(%s) on %s", t.id, t.name, t.blockOn))
			}
		}
		return pathEnd{kind: "deadlock", msg: strings.Join(bl, "; ")}
	}
	return pathEnd{kind: "done"}
}

func (e *Exec) model() map[string]string {
	var ts []*Term
	for _, in := range e.inputs {
		ts = append(ts, in.T)
	}
	vals := e.solver.GetValues(ts)
	m := map[string]string{}
	if e.lastErr != "" {
		m["_last_stub_error"] = "s:" + e.lastErr
	}
	defer e.concretizeBlobs(m)
	for i, in := range e.inputs {
		v := vals[i]
		switch in.T.S.K {
		case KBlob:
			continue
		case KStr:
			m[in.Name] = "s:" + parseSMTString(v)
		case KBV:
			m[in.Name] = fmt.Sprintf("u:%d", parseSMTBV(v))
		case KInt:
			m[in.Name] = fmt.Sprintf("i:%d", parseSMTInt(v))
		case KBool:
			m[in.Name] = "b:" + strings.TrimSpace(v)
		}
	}
	return m
}

// modelFor: is (path ∧ extra) sat? if so return the model.
func (e *Exec) modelFor(extra *Term) (string, map[string]string) {
	e.queries++
	e.solver.Push()
	defer e.solver.Pop()
	e.solver.Assert(extra)
	r := e.solver.Check()
	if r == "sat" {
		nice := append([]*Term(nil), e.nice...)
		// prefer models in which document keys are not the same abstract element as a body /
		// xattr value (they are concretised differently)
		// different roles (keys, bodies, xattr blobs, inputs) are concretised differently: prefer
		// models in which they are different abstract elements
		var blobIn []inputRec
		for _, a := range e.inputs {
			if a.T.S.K == KBlob {
				blobIn = append(blobIn, a)
			}
		}
		isKey := func(n string) bool { return strings.HasSuffix(n, ".key") || strings.HasPrefix(n, "in_key") }
		for i, a := range blobIn {
			for _, b := range blobIn[i+1:] {
				if isKey(a.Name) && isKey(b.Name) {
					continue // equality of keys is what selects rows
				}
				if len(nice) < 80 {
					nice = append(nice, tNe(a.T, b.T))
				}
			}
		}
		if len(nice) > 0 {
			// prefer a replay-friendly model (does not affect the verdict): preferences are
			// added greedily, each kept only if the path stays satisfiable
			kept := 0
			for _, n := range nice {
				if n.IsConst() {
					continue
				}
				e.solver.Push()
				e.solver.Assert(n)
				if e.solver.Check() == "sat" {
					kept++
				} else {
					e.solver.Pop()
				}
			}
			if e.solver.Check() != "sat" {
				for ; kept > 0; kept-- {
					e.solver.Pop()
				}
				if e.solver.Check() != "sat" {
					return "unknown", nil
				}
				return r, e.model()
			}
			m := e.model()
			for ; kept > 0; kept-- {
				e.solver.Pop()
			}
			return r, m
		}
		return r, e.model()
	}
	if r == "unknown" {
		ns := e.solver.Fresh(e.fullTimeout)
		r = ns.Check()
		e.solver.Queries++
		e.solver.Time += ns.Time
		e.solver.Errors += ns.Errors
		e.freshRetries++
		if r == "sat" {
			old := e.solver
			e.solver = ns
			m := e.model()
			e.solver = old
			ns.Close()
			return r, m
		}
		ns.Close()
		if r == "unknown" && secondSolver != "" && !strings.Contains(e.solver.bin, "cvc5") {
			ns = e.solver.FreshBin(secondSolver, 3*e.fullTimeout)
			r = ns.Check()
			e.solver.Queries++
			e.solver.Time += ns.Time
			e.solver.Errors += ns.Errors
			e.escalations++
			if r == "sat" {
				old := e.solver
				e.solver = ns
				m := e.model()
				e.solver = old
				ns.Close()
				return r, m
			}
			ns.Close()
		}
	}
	if r == "unknown" {
		e.unknowns++
		if e.run != nil {
			e.run.noteUnknown(extra)
		}
	}
	return r, nil
}

func (e *Exec) reportViolation(kind, label, detail string, model map[string]string) {
	r := e.run
	r.mu.Lock()
	defer r.mu.Unlock()
	if v, ok := r.Violations[label]; ok {
		v.Count++
		return
	}
	r.Violations[label] = &Violation{Harness: r.Name, Label: label, Kind: kind, Model: model,
		Trace: append([]int(nil), e.trace...), Sched: append([]string(nil), e.schedLog...), Detail: detail, Count: 1,
		SymOnly: e.symOnly || strings.HasPrefix(label, "sym-only:")}
}

func runHarness(L *Loaded, fn *ssa.Function, cfg *RunCfg) *HarnessRun {
	run := &HarnessRun{Name: fn.Name(), fn: fn, Violations: map[string]*Violation{}, Witnesses: map[string]*Witness{},
		Funcs: map[string]bool{}, SQL: map[string]bool{}}
	run.Expected = L.expectedLabels(fn)
	t0 := time.Now()

	var mu sync.Mutex
	cond := sync.NewCond(&mu)
	work := [][]int{{}}
	active := 0
	stop := false

	enqueue := func(p []int) {
		mu.Lock()
		work = append(work, p)
		mu.Unlock()
		cond.Signal()
	}

	var wg sync.WaitGroup
	for w := 0; w < cfg.Workers; w++ {
		wg.Add(1)
		go func(w int) {
			defer wg.Done()
			s := NewSolver(cfg.SolverBin, cfg.LiveTimeoutMs)
			if cfg.LogSMT != "" {
				s.log, _ = os.Create(fmt.Sprintf("%s.%s.%d.smt2", cfg.LogSMT, fn.Name(), w))
			}
			defer s.Close()
			for {
				mu.Lock()
				for len(work) == 0 && active > 0 && !stop {
					cond.Wait()
				}
				if stop || (len(work) == 0 && active == 0) {
					mu.Unlock()
					cond.Broadcast()
					break
				}
				p := work[len(work)-1]
				work = work[:len(work)-1]
				active++
				mu.Unlock()

				e := newExec(L, s, cfg, run, p, enqueue)
				out := e.runPath(fn)

				if os.Getenv("GOSMT_DUMP") != "" {
					fmt.Fprintf(os.Stderr, "PATH %s %s prefix=%d trace=%v labels=%v\n", out.kind, out.msg, len(p), e.trace, e.labels)
				}
				run.mu.Lock()
				run.Paths++
				run.Queries += e.queries
				run.Unknowns += e.unknowns
				run.Asserts += e.asserts
				run.Preempt += e.preemptions
				if len(e.trace) > run.MaxTrace {
					run.MaxTrace = len(e.trace)
				}
				for f := range e.funcsRun {
					run.Funcs[f] = true
				}
				for q := range e.sqlSeen {
					run.SQL[q] = true
				}
				switch out.kind {
				case "done":
					run.Completed++
				case "infeasible":
					run.Infeasible++
				case "bound":
					if len(run.Bound) < 10 {
						run.Bound = append(run.Bound, out.msg)
					}
				case "unsupported":
					if len(run.Unsupported) < 10 {
						run.Unsupported = append(run.Unsupported, out.msg)
					}
				}
				tooMany := run.Paths >= cfg.MaxPaths || (!cfg.Deadline.IsZero() && time.Now().After(cfg.Deadline))
				run.mu.Unlock()
				switch out.kind {
				case "panic":
					st, m := e.modelFor(tTrue)
					if st == "sat" {
						e.reportViolation("panic", "no-panic", out.msg, m)
					}
				case "deadlock":
					st, m := e.modelFor(tTrue)
					if st == "sat" {
						e.reportViolation("deadlock", "no-deadlock", out.msg, m)
					}
				}
				if out.kind == "done" {
					e.recordWitnesses()
				}

				mu.Lock()
				active--
				if tooMany {
					stop = true
				}
				mu.Unlock()
				cond.Broadcast()
			}
			run.mu.Lock()
			run.SolverTime += s.Time
			run.SolverErrors += s.Errors
			run.mu.Unlock()
		}(w)
	}
	wg.Wait()
	if stop {
		if !cfg.Deadline.IsZero() && time.Now().After(cfg.Deadline) {
			run.Bound = append(run.Bound, "time limit of the run reached")
		} else {
			run.Bound = append(run.Bound, fmt.Sprintf("path limit %d reached", cfg.MaxPaths))
		}
	}
	run.Wall = time.Since(t0)
	return run
}

func (e *Exec) recordWitnesses() {
	r := e.run
	var need []string
	r.mu.Lock()
	for _, l := range e.labels {
		if w, ok := r.Witnesses[l]; !ok || (w.SymOnly && !e.symOnly) {
			need = append(need, l)
		}
	}
	wantSample := len(r.Samples) < 3
	wantAlt := false
	for _, l := range e.labels {
		if _, ok := r.Witnesses[l]; ok && !e.symOnly && len(r.AltWitnesses[l]) < 2 {
			wantAlt = true
		}
	}
	r.mu.Unlock()
	if len(need) == 0 && !wantSample && !wantAlt {
		return
	}
	st, m := e.modelFor(tTrue)
	if st != "sat" {
		return
	}
	r.mu.Lock()
	for _, l := range e.labels {
		if _, ok := r.Witnesses[l]; ok && !e.symOnly && len(r.AltWitnesses[l]) < 2 {
			if r.AltWitnesses == nil {
				r.AltWitnesses = map[string][]*Witness{}
			}
			r.AltWitnesses[l] = append(r.AltWitnesses[l], &Witness{Label: l, Model: m, Trace: append([]int(nil), e.trace...)})
		}
	}
	for _, l := range need {
		if w, ok := r.Witnesses[l]; !ok || (w.SymOnly && !e.symOnly) {
			r.Witnesses[l] = &Witness{Label: l, Model: m, Trace: append([]int(nil), e.trace...), SymOnly: e.symOnly}
		}
	}
	if wantSample && len(r.Samples) < 3 {
		s := map[string]string{"_labels": strings.Join(e.labels, ","), "_trace_len": fmt.Sprint(len(e.trace))}
		for k, v := range m {
			if len(v) > 120 {
				v = fmt.Sprintf("%s...(%d bytes)", v[:60], len(v))
			}
			s[k] = v
		}
		r.Samples = append(r.Samples, s)
	}
	r.mu.Unlock()
}

func sortedKeys(m map[string]bool) []string {
	var out []string
	for k := range m {
		out = append(out, k)
	}
	sort.Strings(out)
	return out
}

// ---------- intrinsics ----------

func (e *Exec) input(kind, name string, s Sort) *Term {
	t := e.fresh("in_"+name, s)
	e.inputs = append(e.inputs, inputRec{Name: t.Name, T: t, Kind: kind})
	return t
}

func constName(v Val) string {
	g, ok := toGo(v)
	if !ok {
		panic(pathEnd{kind: "unsupported", msg: "intrinsic name must be constant"})
	}
	return g.(string)
}

func init() {
	p := rosmarPath + "."
	stubs[p+"verifU64"] = func(e *Exec, th *Thread, c *CallCtx, a []Val) StubRes {
		return ret(e.input("u64", constName(a[0]), SBV(64)))
	}
	stubs[p+"verifU32"] = func(e *Exec, th *Thread, c *CallCtx, a []Val) StubRes {
		return ret(e.input("u32", constName(a[0]), SBV(32)))
	}
	stubs[p+"verifInt"] = func(e *Exec, th *Thread, c *CallCtx, a []Val) StubRes {
		return ret(e.input("int", constName(a[0]), SInt))
	}
	stubs[p+"verifBool"] = func(e *Exec, th *Thread, c *CallCtx, a []Val) StubRes {
		return ret(e.input("bool", constName(a[0]), SBool))
	}
	stubs[p+"verifStr"] = func(e *Exec, th *Thread, c *CallCtx, a []Val) StubRes {
		return ret(e.input("str", constName(a[0]), SStr))
	}
	stubs[p+"verifBytes"] = func(e *Exec, th *Thread, c *CallCtx, a []Val) StubRes {
		n := constName(a[0])
		isNil := e.input("bool", n+".nil", SBool)
		s := e.input("blob", n, SBlob)
		e.assume(tImplies(isNil, tEq(s, mkStr(""))))
		return ret(&BytesV{Nil: isNil, S: s})
	}
	stubs[p+"verifXattrsBlob"] = func(e *Exec, th *Thread, c *CallCtx, a []Val) StubRes {
		n := constName(a[0])
		isNil := e.input("bool", n+".nil", SBool)
		s := e.input("xattrs", n, SBlob)
		e.assume(tImplies(isNil, tEq(s, mkStr(""))))
		return ret(&BytesV{Nil: isNil, S: s})
	}
	stubs[p+"verifKey"] = func(e *Exec, th *Thread, c *CallCtx, a []Val) StubRes {
		return ret(e.input("blob", constName(a[0]), SBlob))
	}
	stubs[p+"verifAssume"] = func(e *Exec, th *Thread, c *CallCtx, a []Val) StubRes {
		e.assumeChecked(a[0].(*Term))
		return ret(nil)
	}
	stubs[p+"verifAssert"] = func(e *Exec, th *Thread, c *CallCtx, a []Val) StubRes {
		cond := a[0].(*Term)
		label := constName(a[1])
		e.asserts++
		if cond.IsConst() {
			if !cond.B {
				_, m := e.modelFor(tTrue)
				e.reportViolation("assert", label, "", m)
			}
			return ret(nil)
		}
		st, m := e.modelFor(tNot(cond))
		if st == "sat" {
			e.reportViolation("assert", label, "", m)
		}
		// continue under the assumption that the assertion holds
		if st != "unsat" {
			e.assumeChecked(cond)
		} else {
			e.assume(cond)
		}
		return ret(nil)
	}
	stubs[p+"verifReach"] = func(e *Exec, th *Thread, c *CallCtx, a []Val) StubRes {
		e.labels = append(e.labels, constName(a[0]))
		return ret(nil)
	}
	stubs[p+"verifChoose"] = func(e *Exec, th *Thread, c *CallCtx, a []Val) StubRes {
		n := e.concreteInt(a[1], "verifChoose n")
		k := e.choose(n)
		name := constName(a[0])
		t := e.input("int", name, SInt)
		e.assume(tEq(t, mkInt(int64(k))))
		return ret(mkInt(int64(k)))
	}
	stubs[p+"verifThorough"] = func(e *Exec, th *Thread, c *CallCtx, a []Val) StubRes {
		return ret(mkBool(e.thorough))
	}
	stubs[p+"verifAnd"] = func(e *Exec, th *Thread, c *CallCtx, a []Val) StubRes {
		var ts []*Term
		for _, v := range variadicArgs(a[0]) {
			ts = append(ts, v.(*Term))
		}
		return ret(tAnd(ts...))
	}
	stubs[p+"verifOr"] = func(e *Exec, th *Thread, c *CallCtx, a []Val) StubRes {
		var ts []*Term
		for _, v := range variadicArgs(a[0]) {
			ts = append(ts, v.(*Term))
		}
		return ret(tOr(ts...))
	}
	stubs[p+"verifImplies"] = func(e *Exec, th *Thread, c *CallCtx, a []Val) StubRes {
		return ret(tImplies(a[0].(*Term), a[1].(*Term)))
	}
	stubs[p+"verifBytesEq"] = func(e *Exec, th *Thread, c *CallCtx, a []Val) StubRes {
		x, y := a[0].(*BytesV), a[1].(*BytesV)
		return ret(tAnd(tEq(x.Nil, y.Nil), tEq(x.S, y.S)))
	}
	stubs[p+"verifCut"] = func(e *Exec, th *Thread, c *CallCtx, a []Val) StubRes {
		if e.cuts == nil {
			e.cuts = map[string]bool{}
		}
		e.cuts[constName(a[0])] = true
		return ret(nil)
	}
	stubs[p+"verifIsSystemXattr"] = func(e *Exec, th *Thread, c *CallCtx, a []Val) StubRes {
		u := a[0].(*Term)
		return ret(tAnd(tNe(u, mkStr("")), tEq(tStrByteAt(u, mkInt(0)), mkBV(8, '_'))))
	}
	stubs[p+"verifConcat"] = func(e *Exec, th *Thread, c *CallCtx, a []Val) StubRes {
		x, y := a[0].(*BytesV), a[1].(*BytesV)
		return ret(&BytesV{Nil: tFalse, S: tStrConcat(x.S, y.S)})
	}
	stubs[p+"verifIsCounter"] = func(e *Exec, th *Thread, c *CallCtx, a []Val) StubRes {
		b := a[0].(*BytesV)
		n := a[1].(*Term)
		x := toBlob(b.S)
		return ret(tAnd(tNot(b.Nil), mkUF("jsonUint", SBool, x), tEq(mkUF("juint", SBV(64), x), n), tNe(x, mkStr(""))))
	}
	stubs[p+"verifPrefer"] = func(e *Exec, th *Thread, c *CallCtx, a []Val) StubRes {
		e.nice = append(e.nice, a[0].(*Term))
		return ret(nil)
	}
	stubs[p+"verifIfI64"] = func(e *Exec, th *Thread, c *CallCtx, a []Val) StubRes {
		return ret(tIte(a[0].(*Term), a[1].(*Term), a[2].(*Term)))
	}
	stubs[p+"verifSameEncoded"] = func(e *Exec, th *Thread, c *CallCtx, a []Val) StubRes {
		x, y := a[0].(*BytesV), a[1].(*BytesV)
		return ret(tAnd(tEq(x.Nil, y.Nil), tEq(x.S, y.S)))
	}
	stubs[p+"verifCount"] = func(e *Exec, th *Thread, c *CallCtx, a []Val) StubRes {
		var ts []*Term
		for _, v := range variadicArgs(a[0]) {
			ts = append(ts, v.(*Term))
		}
		cnt := mkInt(0)
		for _, t := range ts {
			cnt = tIntBin("+", cnt, tIte(t, mkInt(1), mkInt(0)))
		}
		return ret(cnt)
	}
	// the JSON text a macro expansion stores: the quoted CAS / CRC32c string
	stubs[p+"verifMacroCasJSON"] = func(e *Exec, th *Thread, c *CallCtx, a []Val) StubRes {
		return ret(bytesOf(e.injUF("jquote", SBlob, toBlob(e.injUF("casStr", SStr, a[0].(*Term))))))
	}
	stubs[p+"verifMacroCrcJSON"] = func(e *Exec, th *Thread, c *CallCtx, a []Val) StubRes {
		b := a[0].(*BytesV)
		return ret(bytesOf(e.injUF("jquote", SBlob, toBlob(e.injUF("crc32c", SStr, toBlob(b.S))))))
	}
	stubs[p+"verifSymbolic"] = func(e *Exec, th *Thread, c *CallCtx, a []Val) StubRes {
		return ret(tTrue)
	}
}
