package main

// One long-lived solver process per worker (`z3 -in`), text protocol,
// push/pop scoped definitions, declaration tracking. Any "(error" in solver
// output makes the query inconclusive (never success).

import (
	"bufio"
	"fmt"
	"io"
	"os"
	"os/exec"
	"strings"
	"time"
)

type Solver struct {
	cmd     *exec.Cmd
	in      io.WriteCloser
	out     *bufio.Reader
	bin     string
	args    []string
	names   map[*Term]string
	decl    map[string]bool
	scopes  []scopeRec
	nameCtr int
	pendingInj []*Term
	noAxioms bool
	hist     []string
	liveTimeout int
	axiomed map[string]bool
	Queries int
	Time    time.Duration
	Errors  int
	log     *os.File
	timeout int // ms per check
}

type scopeRec struct {
	histLen int
	names  []*Term
	decls  []string
	axioms []string
}

func NewSolver(bin string, timeoutMs int) *Solver {
	s := &Solver{bin: bin, timeout: timeoutMs}
	switch {
	case strings.Contains(bin, "cvc5"):
		s.args = []string{"--incremental", "--strings-exp", "--lang=smt2", fmt.Sprintf("--tlimit-per=%d", timeoutMs), "--produce-models"}
	default:
		s.args = []string{"-in", fmt.Sprintf("-t:%d", timeoutMs)}
	}
	s.start()
	return s
}

func (s *Solver) start() {
	s.cmd = exec.Command(s.bin, s.args...)
	var err error
	s.in, err = s.cmd.StdinPipe()
	if err != nil {
		panic(err)
	}
	o, err := s.cmd.StdoutPipe()
	if err != nil {
		panic(err)
	}
	s.cmd.Stderr = os.Stderr
	s.out = bufio.NewReaderSize(o, 1<<20)
	if err := s.cmd.Start(); err != nil {
		panic(err)
	}
	s.resetState()
	if strings.Contains(s.bin, "cvc5") {
		s.send("(set-logic ALL)")
	}
	s.send("(set-option :produce-models true)")
	if !strings.Contains(s.bin, "cvc5") {
		s.send(fmt.Sprintf("(set-option :timeout %d)", s.timeout))
	}
}

const prelude = `(declare-sort Blob 0)
(declare-fun bOfS (String) Blob)
(declare-fun sOfB (Blob) String)
(declare-fun blenraw (Blob) Int)
(define-fun blen ((x Blob)) Int (ite (= x (bOfS "")) 0 (ite (<= (blenraw x) 0) (- 1 (blenraw x)) (blenraw x))))
(declare-fun bfirst (Blob) (_ BitVec 8))
(declare-fun blast (Blob) (_ BitVec 8))
(declare-fun bat (Blob Int) (_ BitVec 8))
(declare-fun bcat (Blob Blob) Blob)
(assert (= (sOfB (bOfS "")) ""))`

func (s *Solver) resetState() {
	s.axiomed = map[string]bool{}
	s.names = map[*Term]string{}
	s.decl = map[string]bool{}
	s.scopes = []scopeRec{{}}
	s.nameCtr = 0
}

func (s *Solver) Close() {
	if s.cmd != nil {
		s.in.Close()
		s.cmd.Process.Kill()
		s.cmd.Wait()
		s.cmd = nil
	}
}

func (s *Solver) send(line string) {
	s.hist = append(s.hist, line)
	if s.log != nil {
		fmt.Fprintln(s.log, line)
	}
	io.WriteString(s.in, line)
	io.WriteString(s.in, "\n")
}

// Reset clears all assertions and declarations (start of a new path).
func (s *Solver) Reset() {
	s.hist = nil
	s.send("(reset)")
	s.resetState()
	if strings.Contains(s.bin, "cvc5") {
		s.send("(set-logic ALL)")
	}
	s.send("(set-option :produce-models true)")
	if !strings.Contains(s.bin, "cvc5") {
		s.send(fmt.Sprintf("(set-option :timeout %d)", s.timeout))
	}
	s.send(prelude)
}

func (s *Solver) Push() {
	hl := len(s.hist)
	s.send("(push 1)")
	s.scopes = append(s.scopes, scopeRec{histLen: hl})
}

// Fresh starts a new solver process holding the current assertions without
// any push/pop history, so that its first check-sat runs non-incrementally
// (full preprocessing). Used when the incremental core answers unknown.
func (s *Solver) Fresh(timeoutMs int) *Solver { return s.FreshBin(s.bin, timeoutMs) }

// secondSolver: the other z3 release on this image, used as a last resort when the first
// one answers unknown non-incrementally too ("" if not installed).
var secondSolver = func() string {
	if p, err := exec.LookPath("z3-new"); err == nil {
		return p
	}
	return ""
}()

func (s *Solver) FreshBin(bin string, timeoutMs int) *Solver {
	ns := &Solver{bin: bin, timeout: timeoutMs}
	ns.args = []string{"-in"}
	if strings.Contains(s.bin, "cvc5") {
		ns.args = s.args
	}
	ns.cmd = exec.Command(ns.bin, ns.args...)
	var err error
	ns.in, err = ns.cmd.StdinPipe()
	if err != nil {
		panic(err)
	}
	o, err := ns.cmd.StdoutPipe()
	if err != nil {
		panic(err)
	}
	ns.cmd.Stderr = os.Stderr
	ns.out = bufio.NewReaderSize(o, 1<<20)
	if err := ns.cmd.Start(); err != nil {
		panic(err)
	}
	ns.names = map[*Term]string{}
	for k, v := range s.names {
		ns.names[k] = v
	}
	ns.decl = map[string]bool{}
	for k, v := range s.decl {
		ns.decl[k] = v
	}
	ns.axiomed = map[string]bool{}
	for k, v := range s.axiomed {
		ns.axiomed[k] = v
	}
	ns.scopes = []scopeRec{{}}
	ns.nameCtr = s.nameCtr + 100000
	ns.log = s.log
	var sb strings.Builder
	for _, l := range s.hist {
		if strings.HasPrefix(l, "(push") || strings.HasPrefix(l, "(reset)") {
			continue
		}
		if strings.HasPrefix(l, "(set-option :timeout") {
			l = fmt.Sprintf("(set-option :timeout %d)", timeoutMs)
		}
		sb.WriteString(l)
		sb.WriteByte('\n')
	}
	if ns.log != nil {
		fmt.Fprintln(ns.log, "; ---- fresh non-incremental solver ----")
	}
	io.WriteString(ns.in, sb.String())
	return ns
}

func (s *Solver) Pop() {
	s.send("(pop 1)")
	top := s.scopes[len(s.scopes)-1]
	s.scopes = s.scopes[:len(s.scopes)-1]
	s.hist = s.hist[:top.histLen]
	for _, t := range top.names {
		delete(s.names, t)
	}
	for _, d := range top.decls {
		delete(s.decl, d)
	}
	for _, a := range top.axioms {
		delete(s.axiomed, a)
	}
}

func (s *Solver) declare(t *Term) {
	vars := map[string]Sort{}
	ufs := map[string]ufSig{}
	s.collect(t, vars, ufs)
	sc := &s.scopes[len(s.scopes)-1]
	for n, so := range vars {
		if !s.decl[n] {
			s.decl[n] = true
			sc.decls = append(sc.decls, n)
			s.send(fmt.Sprintf("(declare-const %s %s)", n, so))
		}
	}
	for n, sig := range ufs {
		if !s.decl["uf:"+n] {
			s.decl["uf:"+n] = true
			sc.decls = append(sc.decls, "uf:"+n)
			var as []string
			for _, a := range sig.args {
				as = append(as, a.String())
			}
			s.send(fmt.Sprintf("(declare-fun %s (%s) %s)", n, strings.Join(as, " "), sig.ret))
		}
	}
	// injectivity of the String->Blob embedding, one instance per application
	for _, app := range s.pendingInj {
		if s.noAxioms {
			break
		}
		arg := s.emit(app.Args[0])
		key := arg
		if s.axiomed[key] {
			continue
		}
		s.axiomed[key] = true
		sc.axioms = append(sc.axioms, key)
		s.send(fmt.Sprintf("(assert (= (sOfB (bOfS %s)) %s))", arg, arg))
		// length of an embedded string is its string length
		s.send(fmt.Sprintf("(assert (= (blen (bOfS %s)) (str.len %s)))", arg, arg))
	}
	s.pendingInj = nil
}

// collect: like collectSyms but does not descend into already-named terms.
func (s *Solver) collect(t *Term, vars map[string]Sort, ufs map[string]ufSig) {
	seen := map[*Term]bool{}
	var rec func(t *Term)
	rec = func(t *Term) {
		if seen[t] {
			return
		}
		seen[t] = true
		if _, ok := s.names[t]; ok {
			return
		}
		switch t.Op {
		case "v":
			vars[t.Name] = t.S
		case "uf":
			if _, ok := ufs[t.Name]; !ok {
				sig := ufSig{ret: t.S}
				for _, a := range t.Args {
					sig.args = append(sig.args, a.S)
				}
				ufs[t.Name] = sig
			}
		case "bOfS":
			if !isEmptyStr(t) {
				s.pendingInj = append(s.pendingInj, t)
			}
		}
		for _, a := range t.Args {
			rec(a)
		}
	}
	rec(t)
}

// emit prints a term, introducing define-fun names for large subterms so the
// text stays linear in the DAG size.
func (s *Solver) emit(t *Term) string {
	if l, ok := t.leafString(); ok {
		return l
	}
	if n, ok := s.names[t]; ok {
		return n
	}
	if t.Op == "bvcount" {
		return s.emit(expandCount(t))
	}
	if t.Op == "bcat" && len(t.Args) > 2 {
		return s.emit(nestBcat(t))
	}
	var b strings.Builder
	b.WriteByte('(')
	if t.Op == "uf" {
		b.WriteString(t.Name)
	} else {
		b.WriteString(t.Op)
	}
	for _, a := range t.Args {
		b.WriteByte(' ')
		b.WriteString(s.emit(a))
	}
	b.WriteByte(')')
	str := b.String()
	if len(str) > 100 {
		s.nameCtr++
		n := fmt.Sprintf("d!%d", s.nameCtr)
		s.send(fmt.Sprintf("(define-fun %s () %s %s)", n, t.S, str))
		s.names[t] = n
		sc := &s.scopes[len(s.scopes)-1]
		sc.names = append(sc.names, t)
		return n
	}
	return str
}

func (s *Solver) Assert(t *Term) {
	if t.IsConst() && t.B {
		return
	}
	s.declare(t)
	s.send("(assert " + s.emit(t) + ")")
}

// Check returns "sat", "unsat" or "unknown".
func (s *Solver) Check() string {
	t0 := time.Now()
	s.send("(check-sat)")
	res := s.readAnswer()
	s.Queries++
	s.Time += time.Since(t0)
	return res
}

func (s *Solver) readAnswer() string {
	for {
		line, err := s.out.ReadString('\n')
		if err != nil {
			s.Errors++
			return "unknown"
		}
		line = strings.TrimSpace(line)
		if line == "" {
			continue
		}
		if s.log != nil {
			fmt.Fprintln(s.log, "; -> "+line)
		}
		switch line {
		case "sat", "unsat", "unknown", "timeout":
			if line == "timeout" {
				return "unknown"
			}
			return line
		}
		if strings.HasPrefix(line, "(error") {
			s.Errors++
			if s.Errors <= 2 {
				fmt.Fprintln(os.Stderr, "SOLVER ERROR:", line)
			}
			// keep reading until an answer arrives
			continue
		}
	}
}

// CheckWith: is (path ∧ extra) satisfiable?
func (s *Solver) CheckWith(extra *Term) string {
	if extra.IsConst() {
		if !extra.B {
			return "unsat"
		}
		return s.Check()
	}
	s.Push()
	s.Assert(extra)
	r := s.Check()
	s.Pop()
	return r
}

// GetValues evaluates terms in the current model (must follow a sat answer
// within the same scope). Returns raw SMT-LIB value strings.
func (s *Solver) GetValues(ts []*Term) []string {
	s.noAxioms = true
	defer func() { s.noAxioms = false }()
	out := make([]string, len(ts))
	for i, t := range ts {
		if l, ok := t.leafString(); ok && t.IsConst() {
			out[i] = l
			continue
		}
		s.declare(t)
		e := s.emit(t)
		s.send("(get-value (" + e + "))")
		out[i] = s.readSexpValue()
	}
	return out
}

// readSexpValue reads one balanced s-expression "((expr value))" and returns value text.
func (s *Solver) readSexpValue() string {
	var buf strings.Builder
	depth := 0
	started := false
	inStr := false
	for {
		c, err := s.out.ReadByte()
		if err != nil {
			s.Errors++
			return ""
		}
		buf.WriteByte(c)
		if inStr {
			if c == '"' {
				inStr = false
			}
			continue
		}
		switch c {
		case '"':
			inStr = true
		case '(':
			depth++
			started = true
		case ')':
			depth--
		}
		if started && depth == 0 {
			break
		}
	}
	txt := strings.TrimSpace(buf.String())
	if s.log != nil {
		fmt.Fprintln(s.log, "; -> "+txt)
	}
	if strings.HasPrefix(txt, "(error") {
		s.Errors++
		return ""
	}
	// strip outer "((" expr value "))": value is the last top-level item of the inner list
	inner := strings.TrimSpace(txt[1 : len(txt)-1])
	inner = strings.TrimSpace(inner[1 : len(inner)-1])
	// split off the first s-expr (the queried expr)
	i := skipSexp(inner, 0)
	return strings.TrimSpace(inner[i:])
}

func skipSexp(s string, i int) int {
	for i < len(s) && (s[i] == ' ' || s[i] == '\n') {
		i++
	}
	if i >= len(s) {
		return i
	}
	if s[i] == '"' {
		i++
		for i < len(s) {
			if s[i] == '"' {
				if i+1 < len(s) && s[i+1] == '"' {
					i += 2
					continue
				}
				return i + 1
			}
			i++
		}
		return i
	}
	if s[i] != '(' {
		for i < len(s) && s[i] != ' ' && s[i] != '\n' && s[i] != ')' {
			i++
		}
		return i
	}
	depth := 0
	for i < len(s) {
		switch s[i] {
		case '"':
			i = skipSexp(s, i) - 1
		case '(':
			depth++
		case ')':
			depth--
			if depth == 0 {
				return i + 1
			}
		}
		i++
	}
	return i
}

// ---------- model value parsing ----------

func parseSMTString(v string) string {
	v = strings.TrimSpace(v)
	if len(v) < 2 || v[0] != '"' {
		return v
	}
	v = v[1 : len(v)-1]
	var b strings.Builder
	for i := 0; i < len(v); i++ {
		if v[i] == '"' && i+1 < len(v) && v[i+1] == '"' {
			b.WriteByte('"')
			i++
			continue
		}
		if v[i] == '\\' && i+1 < len(v) && v[i+1] == 'u' {
			// \u{X..} or \uXXXX
			j := i + 2
			var hex string
			if j < len(v) && v[j] == '{' {
				k := strings.IndexByte(v[j:], '}')
				if k > 0 {
					hex = v[j+1 : j+k]
					j = j + k + 1
				}
			} else if j+4 <= len(v) {
				hex = v[j : j+4]
				j += 4
			}
			if hex != "" {
				var cp uint64
				fmt.Sscanf(hex, "%x", &cp)
				if cp < 256 {
					b.WriteByte(byte(cp))
				} else {
					b.WriteString(string(rune(cp)))
				}
				i = j - 1
				continue
			}
		}
		if v[i] == '\\' && i+1 < len(v) && v[i+1] == 'x' && i+3 < len(v) {
			var cp uint64
			fmt.Sscanf(v[i+2:i+4], "%x", &cp)
			b.WriteByte(byte(cp))
			i += 3
			continue
		}
		b.WriteByte(v[i])
	}
	return b.String()
}

func parseSMTBV(v string) uint64 {
	v = strings.TrimSpace(v)
	var u uint64
	if strings.HasPrefix(v, "#x") {
		fmt.Sscanf(v[2:], "%x", &u)
	} else if strings.HasPrefix(v, "#b") {
		fmt.Sscanf(v[2:], "%b", &u)
	} else if strings.HasPrefix(v, "(_ bv") {
		fmt.Sscanf(v[5:], "%d", &u)
	}
	return u
}

func parseSMTInt(v string) int64 {
	v = strings.TrimSpace(v)
	v = strings.ReplaceAll(v, "(", "")
	v = strings.ReplaceAll(v, ")", "")
	v = strings.ReplaceAll(v, " ", "")
	var i int64
	fmt.Sscanf(v, "%d", &i)
	return i
}
