package main

func (e *Exec) unmarshalObject(data *BytesV, dst *PtrV) Val {
	panic(pathEnd{kind: "unsupported", msg: "json.Unmarshal into map[string]any (object model not built)"})
}

func (e *Exec) marshalObject(v Val) *BytesV {
	panic(pathEnd{kind: "unsupported", msg: "json.Marshal of map[string]any (object model not built)"})
}
