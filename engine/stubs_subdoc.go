package main

// JSON object model for map[string]any documents (C18): a body blob b that is
// a JSON object is observed over a finite property-name universe P (closed
// world, stated bound) to depth 2:
//   oisObj(b)        b is a JSON object
//   ohas(b,p)        object b has member p
//   oget(b,p)        canonical JSON text of member p
// json.Marshal(map[string]any) = omk_n(h1,g1,...,hn,gn) with the observer
// axioms instantiated over P.

import (
	"fmt"
	"go/types"
)

func oisObj(x *Term) *Term  { return mkUF("oisObj", SBool, toBlob(x)) }
func ohas(x, p *Term) *Term { return mkUF("ohas", SBool, toBlob(x), p) }
func oget(x, p *Term) *Term { return mkUF("oget", SBlob, toBlob(x), p) }

func (e *Exec) props() []*Term {
	p, _ := e.world["puniv"].([]*Term)
	return p
}

const objDepth = 2

// objOf builds the Go map for object text b.
func (e *Exec) objOf(b *Term, mapType types.Type, depth int) *MapV {
	m := e.newMap()
	maxDepth, _ := e.world["objDepth"].(int)
	for pi, p := range e.props() {
		if !e.branch(ohas(b, p)) {
			continue
		}
		v := oget(b, p)
		e.assume(jsonValid(v))
		e.assume(tEq(jcanon(v), v))
		e.assume(tNe(v, mkStr("")))
		e.assume(tIntCmp("<=", tStrLen(v), tStrLen(b))) // a member is no longer than the object holding it
		var val Val
		switch {
		case e.branch(tEq(v, nullBlob)):
			val = nilIface
		case depth < maxDepth && pi == 0 && e.branch(oisObj(v)):
			val = &IfaceV{T: mapType, V: e.objOf(v, mapType, depth+1)}
		default:
			// bound: only the first universe property may hold a nested object, to the stated depth
			if !e.branch(tNot(oisObj(v))) {
				panic(pathEnd{kind: "infeasible"})
			}
			val = e.jval(v)
		}
		m.entries = append(m.entries, &mapEntry{k: p, v: val})
	}
	// b is canonical: marshaling the unchanged map gives b back (closed world over P)
	var args []*Term
	for _, p := range e.props() {
		has := false
		for _, en := range m.entries {
			if en.k.(*Term) == p {
				has = true
			}
		}
		if has {
			args = append(args, tTrue, oget(b, p))
		} else {
			args = append(args, tFalse, toBlob(mkStr("")))
		}
	}
	e.assume(tImplies(tEq(jcanon(b), b), tEq(mkUF(fmt.Sprintf("omk%d", len(e.props())), SBlob, args...), b)))
	return m
}

func (e *Exec) unmarshalObject(data *BytesV, dst *PtrV) Val {
	if e.branch(tEq(data.S, mkStr(""))) {
		return e.newError("json", "unexpected end of JSON input")
	}
	if !e.branch(jsonValid(data.S)) {
		return e.newError("json", "invalid JSON")
	}
	if e.branch(tEq(data.S, nullBlob)) {
		return nilIface
	}
	if !e.branch(oisObj(data.S)) {
		return e.newError("json", "cannot unmarshal non-object into map[string]interface{}")
	}
	mt, _ := e.world["objMapType"].(types.Type)
	fresh := e.objOf(toBlob(data.S), mt, 1)
	// json.Unmarshal into a non-nil map keeps the entries the JSON does not mention
	if old, ok := dst.load().(*MapV); ok && !old.isNil {
		for _, en := range fresh.entries {
			e.mapUpdate(old, en.k, en.v)
		}
		return nilIface
	}
	dst.store(fresh)
	return nilIface
}

// marshalAny: canonical JSON text of a parsed value.
func (e *Exec) marshalAny(v Val) *Term {
	iv, _ := v.(*IfaceV)
	if iv == nil || iv.T == nil {
		return nullBlob
	}
	if iv.T == jvalType {
		return iv.V.(*NativeV).Data.(*Term)
	}
	if m, ok := iv.V.(*MapV); ok {
		return e.marshalObject(m).S
	}
	if b, ok := iv.T.Underlying().(*types.Basic); ok && b.Kind() == types.String {
		// a Go string inside a parsed document marshals to a JSON string literal
		s := iv.V.(*Term)
		q := e.injUF("jquote", SBlob, toBlob(s))
		e.assume(tIntCmp("<=", tStrLen(q), tIntBin("+", tIntBin("*", mkInt(6), tStrLen(toBlob(s))), mkInt(2))))
		e.assume(jsonValid(q))
		e.assume(tEq(jcanon(q), q))
		e.assume(tNe(q, nullBlob))
		e.assume(tNot(oisObj(q)))
		return q
	}
	panic(pathEnd{kind: "unsupported", msg: "json.Marshal of " + iv.T.String() + " inside an object"})
}

func (e *Exec) marshalObject(v Val) *BytesV {
	m := v.(*MapV)
	if m.isNil {
		return bytesOf(nullBlob)
	}
	P := e.props()
	var args, hs, gs []*Term
	for _, p := range P {
		h := tFalse
		g := toBlob(mkStr(""))
		for _, en := range m.entries {
			is := tEq(en.k.(*Term), p)
			h = tOr(h, is)
			g = tIte(is, e.marshalAny(en.v), g)
		}
		hs, gs = append(hs, h), append(gs, g)
		args = append(args, h, g)
	}
	for _, en := range m.entries {
		in := tFalse
		for _, p := range P {
			in = tOr(in, tEq(en.k.(*Term), p))
		}
		if !e.branch(in) {
			panic(pathEnd{kind: "bound", msg: "JSON property name outside the universe"})
		}
	}
	r := mkUF(fmt.Sprintf("omk%d", len(P)), SBlob, args...)
	key := "omk:" + r.String()
	if !e.axiomsDone[key] {
		e.axiomsDone[key] = true
		for i, p := range P {
			e.assume(tEq(ohas(r, p), hs[i]))
			e.assume(tImplies(hs[i], tEq(oget(r, p), gs[i])))
		}
		e.assume(jsonValid(r))
		e.assume(oisObj(r))
		e.assume(tEq(jcanon(r), r))
		e.assume(tNe(r, nullBlob))
		e.assume(tIntCmp(">=", tStrLen(r), mkInt(2)))
		// size: at most 2 + sum over members of (value length + name and punctuation)
		ub := mkInt(2)
		for i := range P {
			ub = tIntBin("+", ub, tIte(hs[i], tIntBin("+", tStrLen(gs[i]), mkInt(110)), mkInt(0)))
		}
		e.assume(tIntCmp("<=", tStrLen(r), ub))
	}
	return bytesOf(r)
}

func init() {
	p := rosmarPath + "."
	stubs[p+"verifPropUniverse"] = func(e *Exec, th *Thread, c *CallCtx, a []Val) StubRes {
		n := e.concreteInt(a[0], "universe size")
		var P []*Term
		var vals []Val
		for i := 0; i < n; i++ {
			u := e.input("str", fmt.Sprintf("pu%d", i), SStr)
			// property names are plain identifiers: no path syntax inside
			for _, ch := range []string{".", "[", "]", "\\", "`"} {
				e.assume(tNot(tStrContains(u, mkStr(ch))))
			}
			e.assume(tNe(u, mkStr("")))
			e.assume(tIntCmp("<", tStrLen(u), mkInt(100))) // bound: property names shorter than 100 bytes
			P = append(P, u)
			vals = append(vals, u)
		}
		for i := 0; i < n; i++ {
			for j := i + 1; j < n; j++ {
				e.assume(tNe(P[i], P[j]))
			}
		}
		e.world["puniv"] = P
		e.world["objDepth"] = e.concreteInt(a[2], "object depth")
		// the Go type map[string]any, taken from the intrinsic's declared helper
		e.world["objMapType"] = c.fn.Signature.Params().At(1).Type()
		return ret(e.newSlice(vals))
	}
	stubs[p+"verifObjIs"] = func(e *Exec, th *Thread, c *CallCtx, a []Val) StubRes {
		x := a[0].(*BytesV)
		return ret(tAnd(tNot(x.Nil), tNe(x.S, mkStr("")), jsonValid(x.S), tNe(x.S, nullBlob), oisObj(x.S)))
	}
	stubs[p+"verifObjHas"] = func(e *Exec, th *Thread, c *CallCtx, a []Val) StubRes {
		x := a[0].(*BytesV)
		return ret(tAnd(tNot(x.Nil), ohas(x.S, a[1].(*Term))))
	}
	stubs[p+"verifObjGet"] = func(e *Exec, th *Thread, c *CallCtx, a []Val) StubRes {
		x := a[0].(*BytesV)
		h := tAnd(tNot(x.Nil), ohas(x.S, a[1].(*Term)))
		return ret(&BytesV{Nil: tNot(h), S: tIte(h, oget(x.S, a[1].(*Term)), toBlob(mkStr("")))})
	}
	// verifObjWellFormed(x): members hold canonical JSON, nested objects likewise to depth 2
	stubs[p+"verifObjWellFormed"] = func(e *Exec, th *Thread, c *CallCtx, a []Val) StubRes {
		x := a[0].(*BytesV)
		var cs []*Term
		var rec func(b *Term, depth int)
		rec = func(b *Term, depth int) {
			for _, p := range e.props() {
				v := oget(b, p)
				h := ohas(b, p)
				cs = append(cs, tImplies(h, tAnd(jsonValid(v), tEq(jcanon(v), v), tNe(v, mkStr("")))))
				if depth < objDepth {
					// nested object members
					for _, q := range e.props() {
						w := oget(v, q)
						cs = append(cs, tImplies(tAnd(h, oisObj(v), ohas(v, q)), tAnd(jsonValid(w), tEq(jcanon(w), w), tNe(w, mkStr("")), tNot(oisObj(w)))))
					}
				}
			}
		}
		rec(toBlob(x.S), 1)
		return ret(tAnd(cs...))
	}
}
