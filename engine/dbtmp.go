package main

type DB struct{}
