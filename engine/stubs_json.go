package main

// encoding/json and sgbucket value-encoding stubs.
//
// xattr blobs: a stored xattrs column / event.xattrs is an opaque Blob x with
// observers over the finite xattr-name universe U (closed world, stated bound):
//   xnullb(x)      x is the JSON text `null`            (x == bOfS("null"))
//   jsonValid(x)   x parses as JSON
//   xhas(x,u)      object x has member u
//   xget(x,u)      raw JSON text of member u
// json.Marshal(map) = xmk_n(h1,g1,...,hn,gn) with the observer axioms
// instantiated over U.  Parsed JSON values (`any`) are represented by their
// canonical re-encoding jcanon(raw).

import (
	"encoding/json"
	"fmt"
	"go/token"
	"go/types"
)

var jvalType types.Type = types.NewNamed(types.NewTypeName(token.NoPos, nil, "jsonValue", nil), types.NewStruct(nil, nil), nil)

func (e *Exec) universe() []*Term {
	u, _ := e.world["xuniv"].([]*Term)
	return u
}

var nullBlob = toBlob(mkStr("null"))

func jsonValid(x *Term) *Term { return mkUF("jsonValid", SBool, toBlob(x)) }
func jcanon(x *Term) *Term    { return mkUF("jcanon", SBlob, toBlob(x)) }
func xhas(x, u *Term) *Term   { return mkUF("xhas", SBool, toBlob(x), u) }
func xget(x, u *Term) *Term   { return mkUF("xget", SBlob, toBlob(x), u) }
func xisObj(x *Term) *Term    { return mkUF("xisObj", SBool, toBlob(x)) }

// canonAxioms: facts about jcanon(x) added when the term is created.
func (e *Exec) canonOf(x *Term) *Term {
	c := jcanon(x)
	key := "canon:" + c.String()
	if !e.axiomsDone[key] {
		e.axiomsDone[key] = true
		e.assume(tEq(jcanon(c), c))
		e.assume(jsonValid(c))
		e.assume(tNe(c, mkStr("")))
		e.assume(tEq(tEq(c, nullBlob), tEq(jcanon(x), nullBlob)))
		e.assume(tImplies(tOr(oisObj(x), xisObj(x)), tNe(c, nullBlob))) // an object does not canonicalise to null
		// canonicalisation preserves the object structure (C18 / macro model)
		if len(e.props()) > 0 {
			e.assume(tEq(oisObj(c), oisObj(x)))
			for _, p := range e.props() {
				e.assume(tEq(ohas(c, p), ohas(x, p)))
				e.assume(tImplies(ohas(x, p), tEq(oget(c, p), jcanon(oget(x, p)))))
			}
		}
	}
	return c
}

// marshalXattrMap: json.Marshal(map[string]json.RawMessage).
func (e *Exec) marshalXattrMap(m *MapV) *BytesV {
	if m.isNil {
		return bytesOf(nullBlob)
	}
	U := e.universe()
	var args []*Term
	var hs, gs []*Term
	for _, u := range U {
		h := tFalse
		g := toBlob(mkStr(""))
		for _, en := range m.entries {
			k := en.k.(*Term)
			v := en.v.(*BytesV)
			is := tEq(k, u)
			h = tOr(h, is)
			// json.Marshal of a nil RawMessage emits `null`
			val := tIte(v.Nil, nullBlob, v.S)
			g = tIte(is, val, g)
		}
		hs = append(hs, h)
		gs = append(gs, g)
		args = append(args, h, g)
	}
	// closed world: every key of the map is a universe element
	for _, en := range m.entries {
		k := en.k.(*Term)
		in := tFalse
		for _, u := range U {
			in = tOr(in, tEq(k, u))
		}
		if !e.branch(in) {
			panic(pathEnd{kind: "bound", msg: "xattr name outside the universe"})
		}
	}
	r := mkUF(fmt.Sprintf("xmk%d", len(U)), SBlob, args...)
	key := "xmk:" + r.String()
	if !e.axiomsDone[key] {
		e.axiomsDone[key] = true
		for i, u := range U {
			e.assume(tEq(xhas(r, u), hs[i]))
			e.assume(tImplies(hs[i], tEq(xget(r, u), gs[i])))
		}
		e.assume(jsonValid(r))
		e.assume(xisObj(r))
		e.assume(tNe(r, nullBlob))
		e.assume(tIntCmp(">=", tStrLen(r), mkInt(2)))
		// size of the marshaled object: at most 2 + sum over members of (value length + name and punctuation)
		ub := mkInt(2)
		for i := range U {
			ub = tIntBin("+", ub, tIte(hs[i], tIntBin("+", tStrLen(gs[i]), mkInt(110)), mkInt(0)))
		}
		e.assume(tIntCmp("<=", tStrLen(r), ub))
	}
	return bytesOf(r)
}

// unmarshalXattrMap: json.Unmarshal(x, *map[string]json.RawMessage).
func (e *Exec) unmarshalXattrMap(x *BytesV, dst *PtrV) Val {
	// nil/empty input: "unexpected end of JSON input"
	if e.branch(tEq(x.S, mkStr(""))) {
		return e.newError("json", "unexpected end of JSON input")
	}
	if !e.branch(jsonValid(x.S)) {
		return e.newError("json", "invalid JSON")
	}
	if e.branch(tEq(x.S, nullBlob)) {
		return nilIface // leaves the map untouched
	}
	if !e.branch(xisObj(x.S)) {
		return e.newError("json", "cannot unmarshal non-object into map")
	}
	var m *MapV
	if old, ok := dst.load().(*MapV); ok && !old.isNil {
		m = old
	} else {
		m = e.newMap()
	}
	for _, u := range e.universe() {
		if e.branch(xhas(x.S, u)) {
			e.mapUpdate(m, u, bytesOf(xget(x.S, u)))
		}
	}
	dst.store(m)
	return nilIface
}

// constJSONText: the concrete JSON text of a blob that is the image of a constant string.
func constJSONText(t *Term) (string, bool) {
	if t.Op == "bOfS" && t.Args[0].IsConst() {
		return t.Args[0].Str, true
	}
	if t.IsConst() && t.S == SStr {
		return t.Str, true
	}
	return "", false
}

func (e *Exec) jval(canon *Term) Val {
	return &IfaceV{T: jvalType, V: &NativeV{Kind: "jval", Data: canon}}
}

func init() {
	stubs["encoding/json.Unmarshal"] = func(e *Exec, th *Thread, c *CallCtx, a []Val) StubRes {
		data := a[0].(*BytesV)
		iv := a[1].(*IfaceV)
		if iv.T == nil {
			return ret(e.newError("json", "Unmarshal(nil)"))
		}
		pt, ok := iv.T.Underlying().(*types.Pointer)
		if !ok {
			return ret(e.newError("json", "Unmarshal(non-pointer)"))
		}
		dst := iv.V.(*PtrV)
		et := pt.Elem()
		switch u := et.Underlying().(type) {
		case *types.Map:
			if isByteSlice(u.Elem()) {
				return ret(e.unmarshalXattrMap(data, dst))
			}
			if _, isIface := u.Elem().Underlying().(*types.Interface); isIface {
				return ret(e.unmarshalObject(data, dst))
			}
		case *types.Interface:
			if txt, ok := constJSONText(data.S); ok {
				// concrete JSON literal: decided natively
				var v interface{}
				if err := json.Unmarshal([]byte(txt), &v); err != nil {
					return ret(e.newError("json", "invalid JSON"))
				}
				if v == nil {
					dst.store(nilIface)
					return ret(nilIface)
				}
				cb, _ := json.Marshal(v)
				cn := toBlob(mkStr(string(cb)))
				e.assume(jsonValid(cn))
				e.assume(tEq(jcanon(cn), cn))
				dst.store(e.jval(cn))
				return ret(nilIface)
			}
			if e.branch(tEq(data.S, mkStr(""))) {
				return ret(e.newError("json", "unexpected end of JSON input"))
			}
			if !e.branch(jsonValid(data.S)) {
				return ret(e.newError("json", "invalid JSON"))
			}
			cn := e.canonOf(data.S)
			if e.branch(tEq(cn, nullBlob)) {
				dst.store(nilIface)
				return ret(nilIface)
			}
			// with the JSON object model enabled, an object parses to a Go map (macro expansion
			// and sub-document functions walk into it)
			if mt, ok := e.world["objMapType"].(types.Type); ok && len(e.props()) > 0 {
				if e.branch(oisObj(cn)) {
					dst.store(&IfaceV{T: mt, V: e.objOf(cn, mt, 1)})
					return ret(nilIface)
				}
			}
			dst.store(e.jval(cn))
			return ret(nilIface)
		case *types.Basic:
			if u.Kind() == types.Uint64 {
				if !e.branch(mkUF("jsonUint", SBool, toBlob(data.S))) {
					return ret(e.newError("json", "cannot unmarshal into uint64"))
				}
				dst.store(mkUF("juint", SBV(64), toBlob(data.S)))
				return ret(nilIface)
			}
		case *types.Struct:
			if n, ok := et.(*types.Named); ok && n.Obj().Name() == "checkpoint" {
				if !e.branch(mkUF("ckValid", SBool, toBlob(data.S))) {
					return ret(e.newError("json", "cannot unmarshal checkpoint"))
				}
				dst.store(&StructV{F: []Val{mkUF("ckseq", SBV(64), toBlob(data.S))}})
				return ret(nilIface)
			}
		}
		panic(pathEnd{kind: "unsupported", msg: "json.Unmarshal into " + et.String()})
	}
	stubs["encoding/json.Valid"] = func(e *Exec, th *Thread, c *CallCtx, a []Val) StubRes {
		b := a[0].(*BytesV)
		if txt, ok := constJSONText(b.S); ok {
			return ret(tAnd(tNot(b.Nil), mkBool(json.Valid([]byte(txt)))))
		}
		return ret(tAnd(tNot(b.Nil), tNe(b.S, mkStr("")), jsonValid(b.S)))
	}
	stubs["encoding/json.Marshal"] = func(e *Exec, th *Thread, c *CallCtx, a []Val) StubRes {
		iv, _ := a[0].(*IfaceV)
		if iv == nil || iv.T == nil {
			return ret(TupleV{bytesOf(nullBlob), nilIface})
		}
		if iv.T == jvalType {
			return ret(TupleV{bytesOf(iv.V.(*NativeV).Data.(*Term)), nilIface})
		}
		switch u := iv.T.Underlying().(type) {
		case *types.Map:
			if isByteSlice(u.Elem()) {
				// a RawMessage member that is not valid JSON makes json.Marshal fail
				m := iv.V.(*MapV)
				if !m.isNil {
					bad := tFalse
					for _, en := range m.entries {
						v := en.v.(*BytesV)
						bad = tOr(bad, tAnd(tNot(v.Nil), tNot(jsonValid(v.S))))
					}
					if e.branch(bad) {
						return ret(TupleV{&BytesV{Nil: tTrue, S: toBlob(mkStr(""))}, e.newError("json", "error calling MarshalJSON for type json.RawMessage")})
					}
				}
				return ret(TupleV{e.marshalXattrMap(m), nilIface})
			}
			if _, isIface := u.Elem().Underlying().(*types.Interface); isIface {
				return ret(TupleV{e.marshalObject(iv.V), nilIface})
			}
		case *types.Basic:
			if u.Kind() == types.String {
				s := iv.V.(*Term)
				if s.IsConst() {
					return ret(TupleV{bytesConst(fmt.Sprintf("%q", s.Str)), nilIface})
				}
				return ret(TupleV{bytesOf(e.injUF("jquote", SBlob, toBlob(s))), nilIface})
			}
		case *types.Struct:
			if n, ok := iv.T.(*types.Named); ok && n.Obj().Name() == "checkpoint" {
				seq := iv.V.(*StructV).F[0].(*Term)
				r := e.injUF("ckenc", SBlob, seq)
				e.assume(tEq(mkUF("ckseq", SBV(64), r), seq))
				e.assume(mkUF("ckValid", SBool, r))
				e.assume(jsonValid(r))
				e.assume(tNe(r, mkStr("")))
				return ret(TupleV{bytesOf(r), nilIface})
			}
		}
		panic(pathEnd{kind: "unsupported", msg: "json.Marshal of " + iv.T.String()})
	}

	// sgbucket.EncodeValueWithXattrs(body, xattrs ...Xattr): injective in the
	// body and the set of (name,value) pairs over the universe.
	stubs["github.com/couchbase/sg-bucket.EncodeValueWithXattrs"] = func(e *Exec, th *Thread, c *CallCtx, a []Val) StubRes {
		body := a[0].(*BytesV)
		xs := variadicArgs(a[1])
		U := e.universe()
		args := []*Term{tIte(body.Nil, mkBV(8, 1), mkBV(8, 0)), toBlob(body.S)}
		for _, u := range U {
			h := tFalse
			g := toBlob(mkStr(""))
			for _, xv := range xs {
				sv := xv.(*StructV)
				name := sv.F[0].(*Term)
				val := sv.F[1].(*BytesV)
				is := tEq(name, u)
				h = tOr(h, is)
				g = tIte(is, toBlob(val.S), g)
			}
			args = append(args, tIte(h, mkBV(8, 1), mkBV(8, 0)), g)
		}
		r := e.injUF(fmt.Sprintf("encvx%d", len(U)), SBlob, args...)
		return ret(bytesOf(r))
	}

	p := rosmarPath + "."
	stubs[p+"verifXattrUniverse"] = func(e *Exec, th *Thread, c *CallCtx, a []Val) StubRes {
		n := e.concreteInt(a[0], "universe size")
		var U []*Term
		var vals []Val
		for i := 0; i < n; i++ {
			u := e.input("str", fmt.Sprintf("xu%d", i), SStr)
			U = append(U, u)
			vals = append(vals, u)
		}
		for i := 0; i < n; i++ {
			e.assume(tIntCmp("<", tStrLen(U[i]), mkInt(100))) // bound: xattr names shorter than 100 bytes
			for j := i + 1; j < n; j++ {
				e.assume(tNe(U[i], U[j]))
			}
		}
		e.world["xuniv"] = U
		// facts about the JSON text `null`
		e.assume(jsonValid(nullBlob))
		e.assume(tEq(jcanon(nullBlob), nullBlob))
		e.assume(tNot(xisObj(nullBlob)))
		return ret(e.newSlice(vals))
	}
	// verifXattrHas/Get: observers on a raw xattrs blob (harness oracle side)
	stubs[p+"verifXattrHas"] = func(e *Exec, th *Thread, c *CallCtx, a []Val) StubRes {
		x := a[0].(*BytesV)
		return ret(tAnd(tNot(x.Nil), tNe(x.S, nullBlob), xhas(x.S, a[1].(*Term))))
	}
	stubs[p+"verifXattrGet"] = func(e *Exec, th *Thread, c *CallCtx, a []Val) StubRes {
		x := a[0].(*BytesV)
		u := a[1].(*Term)
		has := tAnd(tNot(x.Nil), tNe(x.S, nullBlob), xhas(x.S, u))
		return ret(&BytesV{Nil: tNot(has), S: tIte(has, xget(x.S, u), toBlob(mkStr("")))})
	}
	// verifXattrsWellFormed(x): NULL, or a valid JSON object/null whose members hold canonical JSON
	stubs[p+"verifXattrsWellFormed"] = func(e *Exec, th *Thread, c *CallCtx, a []Val) StubRes {
		x := a[0].(*BytesV)
		cs := []*Term{jsonValid(x.S), tNe(x.S, mkStr("")), tOr(tEq(x.S, nullBlob), xisObj(x.S))}
		for _, u := range e.universe() {
			g := xget(x.S, u)
			cs = append(cs, tImplies(tAnd(tNe(x.S, nullBlob), xhas(x.S, u)), tAnd(jsonValid(g), tEq(jcanon(g), g), tNe(g, mkStr("")))))
		}
		return ret(tOr(x.Nil, tAnd(cs...)))
	}
	stubs[p+"verifJSONValid"] = func(e *Exec, th *Thread, c *CallCtx, a []Val) StubRes {
		x := a[0].(*BytesV)
		return ret(tAnd(tNot(x.Nil), tNe(x.S, mkStr("")), jsonValid(x.S)))
	}
	stubs[p+"verifJSONCanon"] = func(e *Exec, th *Thread, c *CallCtx, a []Val) StubRes {
		x := a[0].(*BytesV)
		return ret(bytesOf(e.canonOf(x.S)))
	}
	stubs[p+"verifEncodeValueWithXattrs"] = func(e *Exec, th *Thread, c *CallCtx, a []Val) StubRes {
		// oracle: encoding of (body, stored xattrs blob) over the universe
		body := a[0].(*BytesV)
		x := a[1].(*BytesV)
		U := e.universe()
		args := []*Term{tIte(body.Nil, mkBV(8, 1), mkBV(8, 0)), toBlob(body.S)}
		for _, u := range U {
			h := tAnd(tNot(x.Nil), tNe(x.S, nullBlob), xhas(x.S, u))
			args = append(args, tIte(h, mkBV(8, 1), mkBV(8, 0)), tIte(h, xget(x.S, u), toBlob(mkStr(""))))
		}
		return ret(bytesOf(e.injUF(fmt.Sprintf("encvx%d", len(U)), SBlob, args...)))
	}
}

// JSON object model for map[string]any (C18) — see stubs_subdoc.go
