package main

// SMT term layer: sorts, hash-free term DAG with constructor-time constant
// folding, SMT-LIB2 printing. Go fixed-width integers are bit-vectors with
// wrapping semantics, Go `int` and time.Duration are mathematical Int (stated
// in DESIGN.md), strings and byte slices are SMT Strings.

import (
	"fmt"
	"math/big"
	"strings"
)

type SortKind int

const (
	KBool SortKind = iota
	KInt
	KStr
	KBV
	KBlob // uninterpreted sort for opaque byte strings (keys, bodies, xattr blobs)
)

type Sort struct {
	K SortKind
	W int // bit width for KBV
}

var (
	SBool = Sort{K: KBool}
	SInt  = Sort{K: KInt}
	SStr  = Sort{K: KStr}
	SBlob = Sort{K: KBlob}
)

func SBV(w int) Sort { return Sort{K: KBV, W: w} }

func (s Sort) String() string {
	switch s.K {
	case KBool:
		return "Bool"
	case KInt:
		return "Int"
	case KStr:
		return "String"
	case KBlob:
		return "Blob"
	default:
		return fmt.Sprintf("(_ BitVec %d)", s.W)
	}
}

type Term struct {
	Op   string // "c" const, "v" var, else SMT operator (possibly indexed, printed verbatim)
	Args []*Term
	S    Sort
	B    bool     // const bool
	U    uint64   // const bv (masked)
	I    *big.Int // const int
	Str  string   // const string
	Name string   // var name / uf name
}

func (t *Term) IsConst() bool { return t.Op == "c" }

func mask(w int) uint64 {
	if w >= 64 {
		return ^uint64(0)
	}
	return (uint64(1) << uint(w)) - 1
}

var tTrue = &Term{Op: "c", S: SBool, B: true}
var tFalse = &Term{Op: "c", S: SBool, B: false}

func mkBool(b bool) *Term {
	if b {
		return tTrue
	}
	return tFalse
}
func mkBV(w int, v uint64) *Term { return &Term{Op: "c", S: SBV(w), U: v & mask(w)} }
func mkInt(v int64) *Term        { return &Term{Op: "c", S: SInt, I: big.NewInt(v)} }
func mkBig(v *big.Int) *Term     { return &Term{Op: "c", S: SInt, I: new(big.Int).Set(v)} }
func mkStr(s string) *Term       { return &Term{Op: "c", S: SStr, Str: s} }
func mkVar(name string, s Sort) *Term {
	return &Term{Op: "v", S: s, Name: name}
}

// uninterpreted function application
func mkUF(name string, s Sort, args ...*Term) *Term {
	return &Term{Op: "uf", Name: name, S: s, Args: args}
}

func mkOp(op string, s Sort, args ...*Term) *Term { return &Term{Op: op, S: s, Args: args} }

func sameTerm(a, b *Term) bool {
	if a == b {
		return true
	}
	if a.Op != b.Op || a.S != b.S || len(a.Args) != len(b.Args) {
		return false
	}
	switch a.Op {
	case "c":
		switch a.S.K {
		case KBool:
			return a.B == b.B
		case KBV:
			return a.U == b.U
		case KInt:
			return a.I.Cmp(b.I) == 0
		case KStr:
			return a.Str == b.Str
		}
	case "v":
		return a.Name == b.Name
	case "uf":
		if a.Name != b.Name {
			return false
		}
	}
	if len(a.Args) > 3 {
		return false
	}
	for i := range a.Args {
		if !sameTerm(a.Args[i], b.Args[i]) {
			return false
		}
	}
	return true
}

// ---------- boolean ----------

func tNot(a *Term) *Term {
	if a.IsConst() {
		return mkBool(!a.B)
	}
	if a.Op == "not" {
		return a.Args[0]
	}
	return mkOp("not", SBool, a)
}

func tAnd(xs ...*Term) *Term {
	var out []*Term
	for _, x := range xs {
		if x.IsConst() {
			if !x.B {
				return tFalse
			}
			continue
		}
		out = append(out, x)
	}
	switch len(out) {
	case 0:
		return tTrue
	case 1:
		return out[0]
	}
	return mkOp("and", SBool, out...)
}

func tOr(xs ...*Term) *Term {
	var out []*Term
	for _, x := range xs {
		if x.IsConst() {
			if x.B {
				return tTrue
			}
			continue
		}
		out = append(out, x)
	}
	switch len(out) {
	case 0:
		return tFalse
	case 1:
		return out[0]
	}
	return mkOp("or", SBool, out...)
}

func tImplies(a, b *Term) *Term { return tOr(tNot(a), b) }

// toBlob embeds a String term into the opaque Blob sort (injective; the solver
// layer adds the inverse-function axiom for every application).
func toBlob(t *Term) *Term {
	if t.S == SBlob {
		return t
	}
	if t.S != SStr {
		panic("toBlob of " + t.S.String())
	}
	if t.Op == "sOfB" {
		return t.Args[0]
	}
	return mkOp("bOfS", SBlob, t)
}

func isStrLike(s Sort) bool { return s.K == KStr || s.K == KBlob }

func unifyStr(a, b *Term) (*Term, *Term) {
	if a.S != b.S && isStrLike(a.S) && isStrLike(b.S) {
		return toBlob(a), toBlob(b)
	}
	return a, b
}

func tIte(c, a, b *Term) *Term {
	if c.IsConst() {
		if c.B {
			return a
		}
		return b
	}
	a, b = unifyStr(a, b)
	if sameTerm(a, b) {
		return a
	}
	if a.S != b.S {
		panic(fmt.Sprintf("ite sort mismatch %v %v", a.S, b.S))
	}
	if a.S == SBool {
		if a.IsConst() && b.IsConst() {
			if a.B && !b.B {
				return c
			}
			if !a.B && b.B {
				return tNot(c)
			}
		}
		if a.IsConst() {
			if a.B {
				return tOr(c, b)
			}
			return tAnd(tNot(c), b)
		}
		if b.IsConst() {
			if b.B {
				return tOr(tNot(c), a)
			}
			return tAnd(c, a)
		}
	}
	return mkOp("ite", a.S, c, a, b)
}

func tEq(a, b *Term) *Term {
	// byte-at compared with a constant: stay in the string theory (no int2bv)
	if b.Op == "(_ int2bv 8)" && a.IsConst() {
		a, b = b, a
	}
	if a.Op == "(_ int2bv 8)" && b.IsConst() && a.Args[0].Op == "str.to_code" {
		at := a.Args[0].Args[0]
		return mkOp("=", SBool, at, mkStr(string([]byte{byte(b.U)})))
	}
	a, b = unifyStr(a, b)
	if a.Op == "bOfS" && b.Op == "bOfS" {
		return tEq(a.Args[0], b.Args[0]) // injectivity
	}
	if a.S != b.S {
		panic(fmt.Sprintf("eq sort mismatch %v %v: %s / %s", a.S, b.S, a, b))
	}
	if a.IsConst() && b.IsConst() {
		return mkBool(sameTerm(a, b))
	}
	if sameTerm(a, b) {
		return tTrue
	}
	if a.Op == "bvcount" && b.IsConst() && a.U == 0 && b.U == 0 {
		return tNot(tOr(a.Args...))
	}
	if a.S == SBool {
		if a.IsConst() {
			if a.B {
				return b
			}
			return tNot(b)
		}
		if b.IsConst() {
			if b.B {
				return a
			}
			return tNot(a)
		}
	}
	return mkOp("=", SBool, a, b)
}

func tNe(a, b *Term) *Term { return tNot(tEq(a, b)) }

// ---------- bit-vectors ----------

func sext(w int, v uint64) int64 {
	if w >= 64 {
		return int64(v)
	}
	if v&(uint64(1)<<uint(w-1)) != 0 {
		return int64(v | ^mask(w))
	}
	return int64(v)
}

func tBVBin(op string, a, b *Term) *Term {
	if a.S != b.S {
		panic(fmt.Sprintf("bv sort mismatch %s: %v %v", op, a.S, b.S))
	}
	w := a.S.W
	if a.IsConst() && b.IsConst() {
		x, y := a.U, b.U
		switch op {
		case "bvadd":
			return mkBV(w, x+y)
		case "bvsub":
			return mkBV(w, x-y)
		case "bvmul":
			return mkBV(w, x*y)
		case "bvand":
			return mkBV(w, x&y)
		case "bvor":
			return mkBV(w, x|y)
		case "bvxor":
			return mkBV(w, x^y)
		case "bvshl":
			if y >= uint64(w) {
				return mkBV(w, 0)
			}
			return mkBV(w, x<<y)
		case "bvlshr":
			if y >= uint64(w) {
				return mkBV(w, 0)
			}
			return mkBV(w, x>>y)
		case "bvashr":
			s := sext(w, x)
			if y >= uint64(w) {
				y = uint64(w - 1)
			}
			return mkBV(w, uint64(s>>y))
		case "bvudiv":
			if y != 0 {
				return mkBV(w, x/y)
			}
		case "bvurem":
			if y != 0 {
				return mkBV(w, x%y)
			}
		case "bvsdiv":
			if y != 0 {
				return mkBV(w, uint64(sext(w, x)/sext(w, y)))
			}
		case "bvsrem":
			if y != 0 {
				return mkBV(w, uint64(sext(w, x)%sext(w, y)))
			}
		}
	}
	// identities
	if b.IsConst() && b.U == 0 {
		switch op {
		case "bvadd", "bvsub", "bvor", "bvxor", "bvshl", "bvlshr", "bvashr":
			return a
		case "bvand", "bvmul":
			return b
		}
	}
	if a.IsConst() && a.U == 0 {
		switch op {
		case "bvadd", "bvor", "bvxor":
			return b
		case "bvand", "bvmul":
			return a
		}
	}
	return mkOp(op, a.S, a, b)
}

// absBound: an upper bound on |signed value| that holds for every assignment,
// or nil when none is known. Used to justify overflow-free rewrites of
// multiplication by a constant (the x*1e9 duration kernel).
func absBound(t *Term) *big.Int {
	if t.S.K != KBV {
		return nil
	}
	if t.IsConst() {
		v := big.NewInt(sext(t.S.W, t.U))
		return v.Abs(v)
	}
	switch {
	case strings.HasPrefix(t.Op, "(_ zero_extend"):
		w := t.Args[0].S.W
		b := new(big.Int).Lsh(big.NewInt(1), uint(w))
		return b.Sub(b, big.NewInt(1))
	case strings.HasPrefix(t.Op, "(_ sign_extend"):
		return absBound(t.Args[0])
	case t.Op == "bvadd" || t.Op == "bvsub":
		a, b := absBound(t.Args[0]), absBound(t.Args[1])
		if a == nil || b == nil {
			return nil
		}
		r := new(big.Int).Add(a, b)
		if r.BitLen() >= t.S.W {
			return nil
		}
		return r
	case t.Op == "ite":
		a, b := absBound(t.Args[1]), absBound(t.Args[2])
		if a == nil || b == nil {
			return nil
		}
		if a.Cmp(b) > 0 {
			return a
		}
		return b
	}
	return nil
}

// mulFactor: t = x * c with c a positive constant and no signed overflow possible.
func mulFactor(t *Term) (*Term, uint64, bool) {
	if t.Op != "bvmul" {
		return nil, 0, false
	}
	x, c := t.Args[0], t.Args[1]
	if x.IsConst() {
		x, c = c, x
	}
	if !c.IsConst() || sext(c.S.W, c.U) <= 0 {
		return nil, 0, false
	}
	ab := absBound(x)
	if ab == nil {
		return nil, 0, false
	}
	p := new(big.Int).Mul(ab, new(big.Int).SetUint64(c.U))
	if p.BitLen() >= t.S.W {
		return nil, 0, false
	}
	return x, c.U, true
}

func tBVCmp(op string, a, b *Term) *Term {
	if strings.HasPrefix(op, "bvs") {
		if x, c, ok := mulFactor(a); ok {
			if b.IsConst() && b.U == 0 {
				return tBVCmp(op, x, b)
			}
			if y, c2, ok2 := mulFactor(b); ok2 && c == c2 {
				return tBVCmp(op, x, y)
			}
		} else if a.IsConst() && a.U == 0 {
			if y, _, ok := mulFactor(b); ok {
				return tBVCmp(op, a, y)
			}
		}
	}
	if a.Op == "bvcount" && b.IsConst() && a.U == 0 && b.U == 0 {
		switch op {
		case "bvsgt", "bvugt":
			return tOr(a.Args...)
		case "bvsle", "bvule":
			return tNot(tOr(a.Args...))
		case "bvsge", "bvuge":
			return tTrue
		case "bvslt", "bvult":
			return tFalse
		}
	}
	if a.S != b.S {
		panic(fmt.Sprintf("bv cmp sort mismatch %s: %v %v", op, a.S, b.S))
	}
	w := a.S.W
	if a.IsConst() && b.IsConst() {
		x, y := a.U, b.U
		sx, sy := sext(w, x), sext(w, y)
		switch op {
		case "bvult":
			return mkBool(x < y)
		case "bvule":
			return mkBool(x <= y)
		case "bvugt":
			return mkBool(x > y)
		case "bvuge":
			return mkBool(x >= y)
		case "bvslt":
			return mkBool(sx < sy)
		case "bvsle":
			return mkBool(sx <= sy)
		case "bvsgt":
			return mkBool(sx > sy)
		case "bvsge":
			return mkBool(sx >= sy)
		}
	}
	if sameTerm(a, b) {
		switch op {
		case "bvult", "bvugt", "bvslt", "bvsgt":
			return tFalse
		default:
			return tTrue
		}
	}
	return mkOp(op, SBool, a, b)
}

// tCount: number of true conditions as a 64-bit value (RowsAffected).
func tCount(conds []*Term) *Term {
	n := uint64(0)
	var sym []*Term
	for _, c := range conds {
		if c.IsConst() {
			if c.B {
				n++
			}
			continue
		}
		sym = append(sym, c)
	}
	if len(sym) == 0 {
		return mkBV(64, n)
	}
	t := mkOp("bvcount", SBV(64), sym...)
	t.U = n
	return t
}

func tBVNot(a *Term) *Term {
	if a.IsConst() {
		return mkBV(a.S.W, ^a.U)
	}
	return mkOp("bvnot", a.S, a)
}
func tBVNeg(a *Term) *Term {
	if a.IsConst() {
		return mkBV(a.S.W, -a.U)
	}
	return mkOp("bvneg", a.S, a)
}

// resize a bit-vector (Go integer conversion semantics)
func tBVResize(a *Term, w int, signed bool) *Term {
	if a.S.W == w {
		return a
	}
	if a.IsConst() {
		if w > a.S.W && signed {
			return mkBV(w, uint64(sext(a.S.W, a.U)))
		}
		return mkBV(w, a.U)
	}
	if w < a.S.W {
		return mkOp(fmt.Sprintf("(_ extract %d 0)", w-1), SBV(w), a)
	}
	if signed {
		return mkOp(fmt.Sprintf("(_ sign_extend %d)", w-a.S.W), SBV(w), a)
	}
	return mkOp(fmt.Sprintf("(_ zero_extend %d)", w-a.S.W), SBV(w), a)
}

// ---------- Int ----------

func tIntBin(op string, a, b *Term) *Term {
	if a.IsConst() && b.IsConst() {
		r := new(big.Int)
		switch op {
		case "+":
			return mkBig(r.Add(a.I, b.I))
		case "-":
			return mkBig(r.Sub(a.I, b.I))
		case "*":
			return mkBig(r.Mul(a.I, b.I))
		case "div":
			if b.I.Sign() != 0 {
				return mkBig(r.Quo(a.I, b.I)) // Go truncated division
			}
		case "mod":
			if b.I.Sign() != 0 {
				return mkBig(r.Rem(a.I, b.I))
			}
		}
	}
	if b.IsConst() && b.I.Sign() == 0 && (op == "+" || op == "-") {
		return a
	}
	if a.IsConst() && a.I.Sign() == 0 && op == "+" {
		return b
	}
	return mkOp(op, SInt, a, b)
}

func tIntCmp(op string, a, b *Term) *Term {
	// comparisons of ite-of-constants / lengths with constants: distribute
	if a.Op == "ite" && b.IsConst() {
		return tIte(a.Args[0], tIntCmp(op, a.Args[1], b), tIntCmp(op, a.Args[2], b))
	}
	if (a.Op == "str.len" || a.Op == "blen") && b.IsConst() {
		z := b.I.Sign() == 0
		one := b.I.Cmp(big.NewInt(1)) == 0
		switch {
		case op == ">" && z, op == ">=" && one:
			return tNe(a.Args[0], mkStr(""))
		case op == "<=" && z, op == "<" && one:
			return tEq(a.Args[0], mkStr(""))
		case op == ">=" && z:
			return tTrue
		case op == "<" && z:
			return tFalse
		}
	}
	if a.IsConst() && b.IsConst() {
		c := a.I.Cmp(b.I)
		switch op {
		case "<":
			return mkBool(c < 0)
		case "<=":
			return mkBool(c <= 0)
		case ">":
			return mkBool(c > 0)
		case ">=":
			return mkBool(c >= 0)
		}
	}
	return mkOp(op, SBool, a, b)
}

// signed/unsigned bv -> Int
func tBV2Int(a *Term, signed bool) *Term {
	if a.IsConst() {
		if signed {
			return mkInt(sext(a.S.W, a.U))
		}
		return mkBig(new(big.Int).SetUint64(a.U))
	}
	if a.Op == "(_ int2bv 64)" && !signed {
		// bv2nat(int2bv(x)) = x mod 2^64; keep explicit
	}
	nat := mkOp("bv2nat", SInt, a)
	if !signed {
		return nat
	}
	w := a.S.W
	msb := mkOp(fmt.Sprintf("(_ extract %d %d)", w-1, w-1), SBV(1), a)
	two := new(big.Int).Lsh(big.NewInt(1), uint(w))
	return tIte(tEq(msb, mkBV(1, 1)), tIntBin("-", nat, mkBig(two)), nat)
}

func tInt2BV(a *Term, w int) *Term {
	if a.IsConst() {
		m := new(big.Int).Lsh(big.NewInt(1), uint(w))
		r := new(big.Int).Mod(a.I, m)
		return mkBV(w, r.Uint64())
	}
	return mkOp(fmt.Sprintf("(_ int2bv %d)", w), SBV(w), a)
}

// ---------- strings ----------

func tStrLen(a *Term) *Term {
	if a.IsConst() {
		return mkInt(int64(len(a.Str)))
	}
	if a.Op == "bOfS" {
		return tStrLen(a.Args[0])
	}
	if a.Op == "bcat" {
		sum := mkInt(0)
		for _, p := range a.Args {
			sum = tIntBin("+", sum, tStrLen(p))
		}
		return sum
	}
	if a.S == SBlob && a.Op != "ite" {
		return mkOp("blen", SInt, a)
	}
	if a.Op == "ite" {
		return tIte(a.Args[0], tStrLen(a.Args[1]), tStrLen(a.Args[2]))
	}
	if a.Op == "str.++" {
		return tIntBin("+", tStrLen(a.Args[0]), tStrLen(a.Args[1]))
	}
	return mkOp("str.len", SInt, a)
}

func isEmptyStr(t *Term) bool {
	if t.IsConst() && t.S == SStr && t.Str == "" {
		return true
	}
	return t.Op == "bOfS" && isEmptyStr(t.Args[0])
}

func tStrConcat(a, b *Term) *Term {
	if a.S == SBlob || b.S == SBlob {
		if isEmptyStr(a) {
			return toBlob(b)
		}
		if isEmptyStr(b) {
			return toBlob(a)
		}
		a, b = toBlob(a), toBlob(b)
		// distribute over ite so that concatenations of selected values normalise too
		if a.Op == "ite" {
			return tIte(a.Args[0], tStrConcat(a.Args[1], b), tStrConcat(a.Args[2], b))
		}
		if b.Op == "ite" {
			return tIte(b.Args[0], tStrConcat(a, b.Args[1]), tStrConcat(a, b.Args[2]))
		}
		// flatten into a normalised piece list (adjacent string images merged) so that
		// differently associated concatenations are syntactically equal
		var pieces []*Term
		add := func(t *Term) {
			if n := len(pieces); n > 0 && pieces[n-1].Op == "bOfS" && t.Op == "bOfS" {
				pieces[n-1] = toBlob(tStrConcat(pieces[n-1].Args[0], t.Args[0]))
				return
			}
			pieces = append(pieces, t)
		}
		for _, t := range []*Term{a, b} {
			if t.Op == "bcat" {
				for _, p := range t.Args {
					add(p)
				}
			} else {
				add(t)
			}
		}
		if len(pieces) == 1 {
			return pieces[0]
		}
		return mkOp("bcat", SBlob, pieces...)
	}
	if a.IsConst() && b.IsConst() {
		return mkStr(a.Str + b.Str)
	}
	if a.IsConst() && a.Str == "" {
		return b
	}
	if b.IsConst() && b.Str == "" {
		return a
	}
	return mkOp("str.++", SStr, a, b)
}

// nestBcat turns the n-ary bcat into nested binary applications for printing.
func nestBcat(t *Term) *Term {
	if t.Op != "bcat" || len(t.Args) <= 2 {
		return t
	}
	acc := t.Args[len(t.Args)-1]
	for i := len(t.Args) - 2; i >= 0; i-- {
		acc = &Term{Op: "bcat", S: SBlob, Args: []*Term{t.Args[i], acc}}
	}
	return acc
}

// byte at index i (Int) as BV8. Strings hold bytes 0..255 as code points.
func tStrByteAt(a, i *Term) *Term {
	if a.Op == "bOfS" {
		return tStrByteAt(a.Args[0], i)
	}
	if a.S == SBlob {
		if a.Op == "ite" {
			return tIte(a.Args[0], tStrByteAt(a.Args[1], i), tStrByteAt(a.Args[2], i))
		}
		if i.IsConst() && i.I.Sign() == 0 {
			return mkOp("bfirst", SBV(8), a)
		}
		if i.Op == "-" && i.Args[1].IsConst() && i.Args[1].I.Cmp(big.NewInt(1)) == 0 && sameTerm(i.Args[0], tStrLen(a)) {
			return mkOp("blast", SBV(8), a)
		}
		return mkOp("bat", SBV(8), a, i)
	}
	if a.IsConst() && i.IsConst() {
		idx := int(i.I.Int64())
		if idx >= 0 && idx < len(a.Str) {
			return mkBV(8, uint64(a.Str[idx]))
		}
	}
	code := mkOp("str.to_code", SInt, mkOp("str.at", SStr, a, i))
	return mkOp("(_ int2bv 8)", SBV(8), code)
}

func tStrContains(a, b *Term) *Term {
	if a.Op == "bOfS" {
		a = a.Args[0]
	}
	if a.S == SBlob {
		panic(unsupportedOp{"str.contains on opaque blob"})
	}
	if a.IsConst() && b.IsConst() {
		return mkBool(strings.Contains(a.Str, b.Str))
	}
	return mkOp("str.contains", SBool, a, b)
}

type unsupportedOp struct{ msg string }

func tStrPrefixOf(p, a *Term) *Term {
	if a.Op == "bOfS" {
		a = a.Args[0]
	}
	if a.S == SBlob {
		panic(unsupportedOp{"str.prefixof on opaque blob"})
	}
	if a.IsConst() && p.IsConst() {
		return mkBool(strings.HasPrefix(a.Str, p.Str))
	}
	return mkOp("str.prefixof", SBool, p, a)
}

// ---------- printing ----------

func smtStrLit(s string) string {
	var b strings.Builder
	b.WriteByte('"')
	for i := 0; i < len(s); i++ {
		c := s[i]
		switch {
		case c == '"':
			b.WriteString(`""`)
		case c == '\\':
			b.WriteString(`\u{5c}`)
		case c >= 0x20 && c < 0x7f:
			b.WriteByte(c)
		default:
			fmt.Fprintf(&b, `\u{%x}`, c)
		}
	}
	b.WriteByte('"')
	return b.String()
}

func (t *Term) leafString() (string, bool) {
	switch t.Op {
	case "c":
		switch t.S.K {
		case KBool:
			if t.B {
				return "true", true
			}
			return "false", true
		case KBV:
			if t.S.W%4 == 0 {
				return fmt.Sprintf("#x%0*x", t.S.W/4, t.U), true
			}
			return fmt.Sprintf("#b%0*b", t.S.W, t.U), true
		case KInt:
			if t.I.Sign() < 0 {
				return "(- " + new(big.Int).Neg(t.I).String() + ")", true
			}
			return t.I.String(), true
		case KStr:
			return smtStrLit(t.Str), true
		}
	case "v":
		return t.Name, true
	}
	return "", false
}

// String prints the full term without sharing (debug only).
func (t *Term) String() string {
	if s, ok := t.leafString(); ok {
		return s
	}
	if t.Op == "bvcount" {
		return expandCount(t).String()
	}
	if t.Op == "bcat" && len(t.Args) > 2 {
		return nestBcat(t).String()
	}
	var b strings.Builder
	b.WriteByte('(')
	if t.Op == "uf" {
		b.WriteString(t.Name)
	} else {
		b.WriteString(t.Op)
	}
	for _, a := range t.Args {
		b.WriteByte(' ')
		b.WriteString(a.String())
	}
	b.WriteByte(')')
	return b.String()
}

// collectSyms gathers free variables and UF signatures.
func collectSyms(t *Term, vars map[string]Sort, ufs map[string]ufSig, seen map[*Term]bool) {
	if seen[t] {
		return
	}
	seen[t] = true
	switch t.Op {
	case "v":
		vars[t.Name] = t.S
	case "uf":
		if _, ok := ufs[t.Name]; !ok {
			sig := ufSig{ret: t.S}
			for _, a := range t.Args {
				sig.args = append(sig.args, a.S)
			}
			ufs[t.Name] = sig
		}
	}
	for _, a := range t.Args {
		collectSyms(a, vars, ufs, seen)
	}
}

type ufSig struct {
	args []Sort
	ret  Sort
}

func expandCount(t *Term) *Term {
	acc := mkBV(64, t.U)
	for _, c := range t.Args {
		acc = mkOp("bvadd", SBV(64), acc, mkOp("ite", SBV(64), c, mkBV(64, 1), mkBV(64, 0)))
	}
	return acc
}
