package main

import (
	"fmt"
	"go/constant"
	"os"
	"path/filepath"
	"sort"
	"strings"

	"golang.org/x/tools/go/packages"
	"golang.org/x/tools/go/ssa"
	"golang.org/x/tools/go/ssa/ssautil"
)

type Loaded struct {
	prog     *ssa.Program
	pkg      *ssa.Package
	pkgs     map[string]*ssa.Package
	schema   string
	harnessFiles []string
}

func loadRepo(repo string, harnessDir string) (*Loaded, error) {
	overlay := map[string][]byte{}
	var hfiles []string
	files, _ := filepath.Glob(filepath.Join(harnessDir, "*.go"))
	sort.Strings(files)
	for _, f := range files {
		b, err := os.ReadFile(f)
		if err != nil {
			return nil, err
		}
		base := filepath.Base(f)
		if strings.HasSuffix(base, "_native.go") || strings.HasSuffix(base, "_test.go") {
			continue
		}
		name := filepath.Join(repo, "zz_verif_"+base)
		overlay[name] = b
		hfiles = append(hfiles, name)
	}
	cfg := &packages.Config{
		Mode:       packages.LoadAllSyntax,
		Dir:        repo,
		Overlay:    overlay,
		BuildFlags: []string{"-tags=verif,verifsym"},
		Env:        append(os.Environ(), "GOFLAGS=-mod=mod", "GOPROXY=off", "GOSUMDB=off", "GOTOOLCHAIN=local"),
	}
	pkgs, err := packages.Load(cfg, ".")
	if err != nil {
		return nil, err
	}
	nerr := 0
	packages.Visit(pkgs, nil, func(p *packages.Package) {
		for _, e := range p.Errors {
			fmt.Fprintln(os.Stderr, "load error:", e)
			nerr++
		}
	})
	if nerr > 0 {
		return nil, fmt.Errorf("%d package errors (repository does not type-check with harness overlay)", nerr)
	}
	prog, spkgs := ssautil.AllPackages(pkgs, ssa.InstantiateGenerics)
	prog.Build()
	L := &Loaded{prog: prog, pkg: spkgs[0], pkgs: map[string]*ssa.Package{}, harnessFiles: hfiles}
	for _, p := range prog.AllPackages() {
		L.pkgs[p.Pkg.Path()] = p
	}
	sch, err := os.ReadFile(filepath.Join(repo, "schema.sql"))
	if err != nil {
		return nil, err
	}
	L.schema = string(sch)
	return L, nil
}

func (L *Loaded) isHarnessFunc(fn *ssa.Function) bool {
	if fn == nil {
		return false
	}
	for fn.Parent() != nil {
		fn = fn.Parent()
	}
	if fn.Pkg != L.pkg && !(fn.Origin() != nil && fn.Origin().Pkg == L.pkg) {
		return false
	}
	pos := L.prog.Fset.Position(fn.Pos())
	return strings.HasPrefix(filepath.Base(pos.Filename), "zz_verif_")
}

// harnesses returns the harness entry points (functions named Harness_*).
func (L *Loaded) harnesses() []*ssa.Function {
	var out []*ssa.Function
	for name, m := range L.pkg.Members {
		if fn, ok := m.(*ssa.Function); ok && strings.HasPrefix(name, "Harness_") {
			out = append(out, fn)
		}
	}
	sort.Slice(out, func(i, j int) bool { return out[i].Name() < out[j].Name() })
	return out
}

// expectedLabels walks harness-file callees collecting constant verifReach labels.
func (L *Loaded) expectedLabels(fn *ssa.Function) []string {
	seen := map[*ssa.Function]bool{}
	labels := map[string]bool{}
	var walk func(f *ssa.Function)
	walk = func(f *ssa.Function) {
		if seen[f] || len(f.Blocks) == 0 {
			return
		}
		seen[f] = true
		for _, b := range f.Blocks {
			for _, in := range b.Instrs {
				if mc, ok := in.(*ssa.MakeClosure); ok {
					walk(mc.Fn.(*ssa.Function))
				}
				c, ok := in.(ssa.CallInstruction)
				if !ok {
					continue
				}
				cc := c.Common()
				callee := cc.StaticCallee()
				if callee == nil {
					continue
				}
				if callee.Name() == "verifReach" && len(cc.Args) == 1 {
					if k, ok := cc.Args[0].(*ssa.Const); ok && k.Value != nil {
						labels[constant.StringVal(k.Value)] = true
					}
				}
				if L.isHarnessFunc(callee) {
					walk(callee)
				}
			}
		}
		for _, af := range f.AnonFuncs {
			walk(af)
		}
	}
	walk(fn)
	var out []string
	for l := range labels {
		out = append(out, l)
	}
	sort.Strings(out)
	return out
}
