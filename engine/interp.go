package main

import (
	"fmt"
	"go/constant"
	"go/token"
	"go/types"
	"math/big"
	"os"
	"strings"

	"golang.org/x/tools/go/ssa"
)

type Frame struct {
	fn       *ssa.Function
	block    *ssa.BasicBlock
	prev     *ssa.BasicBlock
	pc       int
	locals   map[ssa.Value]Val
	bindings []Val
	defers   []deferred
	result   Val          // value returned by callee is delivered to callInstr
	callInst ssa.Value    // the call instruction in this frame awaiting a result
	visits   map[int]int  // block index -> visit count
	onReturn func(Val)    // engine continuation (for callSync / go roots)
	runningDefers bool
}

type deferred struct {
	fn   Val
	args []Val
	call *ssa.CallCommon
}

type Thread struct {
	id      int
	frames  []*Frame
	done    bool
	blocked func() bool // non-nil: thread is waiting; returns true when it may proceed
	blockOn string
	name    string
	daemon  bool
	retVal  Val
	justScheduled bool
	joining bool
	wait    *waitSt
}

func (t *Thread) top() *Frame { return t.frames[len(t.frames)-1] }

type mutexState struct {
	held  bool
	owner int
}

type inputRec struct {
	Name string
	T    *Term
	Kind string // "u64","str","bool","bytes.nil","bytes.s", ...
}

type Exec struct {
	L        *Loaded
	solver   *Solver
	decisions []int
	dpos     int
	trace    []int
	enqueue  func(prefix []int)
	cellCtr  int
	symCtr   map[string]int
	globals  map[*ssa.Global]*Cell
	threads  []*Thread
	cur      *Thread
	mutexes  map[string]*mutexState
	conds    map[string][]int // cond key -> waiting thread ids
	inputs   []inputRec
	steps    int
	maxSteps int
	loopBound int
	unknowns int
	queries  int
	explore  bool // explore schedules
	run      *HarnessRun
	labels   []string // reachability labels hit on this path
	asserts  int
	dbs      []*DB
	hooks    map[string]Val
	funcsRun map[string]bool
	sqlSeen  map[string]bool
	pathConds []*Term
	schedLog []string
	timers   []*timerObj
	visible  int
	maxVisible int
	world    map[string]interface{}
	axiomsDone map[string]bool
	crashAt  int // stub-call index at which to crash (-1 none)
	condWaiters map[string][]*waitSt
	onces    map[string]bool
	wgs      map[string]int
	thorough bool
	preemptions int
	lastNow  *Term
	frozenNow *Term
	stubCalls int
	noPrune bool
	cuts    map[string]bool
	nice    []*Term
	symOnly bool
	lastErr string
	preemptBound int
	buffers map[string]*Term
	bufAliases map[string][]*BytesV
	fullTimeout int
	freshRetries int
	escalations  int
}

func (e *Exec) fresh(prefix string, s Sort) *Term {
	n := e.symCtr[prefix]
	e.symCtr[prefix] = n + 1
	name := prefix
	if n > 0 {
		name = fmt.Sprintf("%s!%d", prefix, n)
	}
	name = sanitizeName(name)
	return mkVar(name, s)
}

func sanitizeName(n string) string {
	var b strings.Builder
	for _, c := range n {
		if c >= 'a' && c <= 'z' || c >= 'A' && c <= 'Z' || c >= '0' && c <= '9' || c == '_' || c == '!' || c == '.' {
			b.WriteRune(c)
		} else {
			b.WriteByte('_')
		}
	}
	return b.String()
}

func (e *Exec) newCell(v Val, name string) *Cell {
	e.cellCtr++
	return &Cell{id: e.cellCtr, v: v, name: name}
}

// ---------- path condition / branching ----------

func (e *Exec) assume(c *Term) {
	if c.IsConst() {
		if !c.B {
			panic(pathEnd{kind: "infeasible"})
		}
		return
	}
	e.pathConds = append(e.pathConds, c)
	e.solver.Assert(c)
}

// assumeChecked adds a constraint and verifies the path stays feasible.
func (e *Exec) assumeChecked(c *Term) {
	if c.IsConst() {
		e.assume(c)
		return
	}
	if e.dpos < len(e.decisions) {
		// replaying: feasibility was established before
		e.dpos++
		e.trace = append(e.trace, 1)
		e.assume(c)
		return
	}
	r := e.check(c)
	if r == "unsat" {
		panic(pathEnd{kind: "infeasible"})
	}
	e.trace = append(e.trace, 1)
	e.assume(c)
}

func (e *Exec) check(extra *Term) string {
	e.queries++
	r := e.solver.CheckWith(extra)
	if r == "unknown" {
		ns := e.solver.Fresh(e.fullTimeout)
		ns.Assert(extra)
		r = ns.Check()
		e.solver.Queries++
		e.solver.Time += ns.Time
		e.solver.Errors += ns.Errors
		ns.Close()
		e.freshRetries++
		if r == "unknown" && secondSolver != "" && !strings.Contains(e.solver.bin, "cvc5") {
			// last resort: the other z3 release, three times the budget (robust to a loaded machine)
			ns = e.solver.FreshBin(secondSolver, 3*e.fullTimeout)
			ns.Assert(extra)
			r = ns.Check()
			e.solver.Queries++
			e.solver.Time += ns.Time
			e.solver.Errors += ns.Errors
			ns.Close()
			e.escalations++
		}
	}
	if r == "unknown" {
		e.unknowns++
		if e.run != nil {
			e.run.noteUnknown(extra)
		}
	}
	return r
}

func (e *Exec) branch(c *Term) bool {
	if c.IsConst() {
		return c.B
	}
	if e.dpos < len(e.decisions) {
		d := e.decisions[e.dpos]
		e.dpos++
		e.trace = append(e.trace, d)
		if d == 1 {
			e.assume(c)
			return true
		}
		e.assume(tNot(c))
		return false
	}
	rT := e.check(c)
	if rT == "unsat" {
		e.trace = append(e.trace, 0)
		e.assume(tNot(c))
		return false
	}
	rF := e.check(tNot(c))
	if rF == "unsat" {
		e.trace = append(e.trace, 1)
		e.assume(c)
		return true
	}
	// both feasible (or unknown: never prune)
	if e.run != nil && e.cur != nil && len(e.cur.frames) > 0 {
		fr := e.cur.top()
		pos := e.L.prog.Fset.Position(fr.block.Instrs[minInt(fr.pc, len(fr.block.Instrs)-1)].Pos())
		site := fmt.Sprintf("%s %s:%d", fr.fn.Name(), shortFile(pos.Filename), pos.Line)
		e.run.mu.Lock()
		if e.run.ForkSites == nil {
			e.run.ForkSites = map[string]int{}
		}
		e.run.ForkSites[site]++
		e.run.mu.Unlock()
	}
	alt := append(append([]int(nil), e.trace...), 0)
	e.enqueue(alt)
	e.trace = append(e.trace, 1)
	e.assume(c)
	return true
}

// choose among n alternatives (scheduling, nondeterministic stubs).
func (e *Exec) choose(n int) int {
	if n <= 1 {
		return 0
	}
	if e.dpos < len(e.decisions) {
		d := e.decisions[e.dpos]
		e.dpos++
		e.trace = append(e.trace, d)
		return d
	}
	for i := n - 1; i >= 1; i-- {
		alt := append(append([]int(nil), e.trace...), i)
		e.enqueue(alt)
	}
	e.trace = append(e.trace, 0)
	return 0
}

// ---------- constants / operands ----------

func (e *Exec) constVal(c *ssa.Const) Val {
	t := c.Type()
	if c.Value == nil {
		return zeroVal(t)
	}
	if s, ok := sortOf(t); ok {
		switch s.K {
		case KBool:
			return mkBool(constant.BoolVal(c.Value))
		case KStr:
			return mkStr(constant.StringVal(c.Value))
		case KInt:
			v := constant.ToInt(c.Value)
			if i, ok := constant.Int64Val(v); ok {
				return mkInt(i)
			}
			bi, _ := new(big.Int).SetString(v.ExactString(), 10)
			return mkBig(bi)
		case KBV:
			v := constant.ToInt(c.Value)
			if i, ok := constant.Int64Val(v); ok {
				return mkBV(s.W, uint64(i))
			}
			u, _ := constant.Uint64Val(v)
			return mkBV(s.W, u)
		}
	}
	if b, ok := t.Underlying().(*types.Basic); ok && (b.Info()&types.IsFloat != 0) {
		f, _ := constant.Float64Val(c.Value)
		return &NativeV{Kind: "float", Data: f}
	}
	if _, ok := t.Underlying().(*types.Interface); ok {
		return nilIface
	}
	panic(fmt.Sprintf("constVal: %v : %v", c, t))
}

func (e *Exec) get(fr *Frame, v ssa.Value) Val {
	switch x := v.(type) {
	case *ssa.Const:
		return e.constVal(x)
	case *ssa.Global:
		return &PtrV{c: e.globalCell(x)}
	case *ssa.Function:
		return &FuncV{fn: x}
	case *ssa.Builtin:
		return &FuncV{native: "builtin:" + x.Name()}
	case *ssa.FreeVar:
		for i, fv := range fr.fn.FreeVars {
			if fv == x {
				return fr.bindings[i]
			}
		}
		panic("freevar not found")
	}
	val, ok := fr.locals[v]
	if !ok {
		panic(fmt.Sprintf("get: no value for %s (%T) in %s", v.Name(), v, fr.fn))
	}
	return val
}

func (e *Exec) globalCell(g *ssa.Global) *Cell {
	if c, ok := e.globals[g]; ok {
		return c
	}
	et := g.Type().(*types.Pointer).Elem()
	var v Val
	if iv := e.foreignGlobalInit(g, et); iv != nil {
		v = iv
	} else {
		v = zeroVal(et)
	}
	c := e.newCell(v, g.String())
	e.globals[g] = c
	return c
}

// ---------- frames / calls ----------

func (e *Exec) pushFrame(th *Thread, fn *ssa.Function, args []Val, bindings []Val) *Frame {
	if len(fn.Blocks) == 0 {
		panic(pathEnd{kind: "unsupported", msg: "call to external function without stub: " + fn.String()})
	}
	if len(th.frames) > 200 {
		panic(pathEnd{kind: "bound", msg: "stack depth"})
	}
	fr := &Frame{fn: fn, block: fn.Blocks[0], locals: make(map[ssa.Value]Val, 32), bindings: bindings, visits: map[int]int{}}
	for i, p := range fn.Params {
		if i < len(args) {
			fr.locals[p] = args[i]
		} else {
			fr.locals[p] = zeroVal(p.Type())
		}
	}
	th.frames = append(th.frames, fr)
	if e.funcsRun != nil && fn.Pkg != nil && fn.Pkg == e.L.pkg {
		e.funcsRun[fn.String()] = true
	} else if e.funcsRun != nil && fn.Pkg == nil && fn.Origin() != nil && fn.Origin().Pkg == e.L.pkg {
		e.funcsRun[fn.String()] = true
	}
	return fr
}

// deliver a return value to the thread's top frame (after a pop).
func (e *Exec) deliver(th *Thread, ret Val, cont func(Val)) {
	if cont != nil {
		cont(ret)
		return
	}
	if len(th.frames) == 0 {
		th.done = true
		th.retVal = ret
		return
	}
	fr := th.top()
	if fr.callInst != nil {
		fr.locals[fr.callInst] = ret
		fr.callInst = nil
	}
}

func (e *Exec) doReturn(th *Thread, ret Val) {
	fr := th.top()
	th.frames = th.frames[:len(th.frames)-1]
	e.deliver(th, ret, fr.onReturn)
}

// callValue invokes a function value with args; result is delivered to
// instruction `dst` in frame `fr` (dst may be nil).
func (e *Exec) callValue(th *Thread, fr *Frame, dst ssa.Value, fv Val, args []Val, cc *ssa.CallCommon) {
	f, _ := fv.(*FuncV)
	if f == nil {
		panic(goPanic{"call of nil function"})
	}
	if f.nativeFn != nil {
		ret := f.nativeFn(e, th, args)
		if dst != nil {
			fr.locals[dst] = ret
		}
		return
	}
	if f.native != "" {
		ret := e.callBuiltin(th, fr, f.native, args, cc)
		if dst != nil {
			fr.locals[dst] = ret
		}
		return
	}
	if f.fn.Name() == "init" && f.fn.Pkg != nil && f.fn.Pkg != e.L.pkg {
		if dst != nil {
			fr.locals[dst] = nil
		}
		return // foreign package initialisers are not run
	}
	name := f.fn.String()
	if f.fn.Origin() != nil {
		name = f.fn.Origin().String()
	}
	if e.cuts != nil && e.cuts[name] {
		if dst != nil {
			fr.locals[dst] = zeroVal(f.fn.Signature.Results())
			if f.fn.Signature.Results().Len() == 1 {
				fr.locals[dst] = zeroVal(f.fn.Signature.Results().At(0).Type())
			} else if f.fn.Signature.Results().Len() == 0 {
				fr.locals[dst] = nil
			}
		}
		return
	}
	if stub, ok := stubs[name]; ok {
		res := stub(e, th, &CallCtx{fr: fr, dst: dst, fn: f.fn, cc: cc}, args)
		if res.blocked {
			return // retried later: pc not advanced by caller
		}
		if res.pushed {
			return
		}
		if dst != nil {
			fr.locals[dst] = res.v
		}
		return
	}
	if len(f.fn.Blocks) == 0 {
		panic(pathEnd{kind: "unsupported", msg: "no stub for external " + name})
	}
	if !e.allowedPkg(f.fn) {
		panic(pathEnd{kind: "unsupported", msg: "no stub for foreign " + name})
	}
	fr.callInst = dst
	e.pushFrame(th, f.fn, args, f.bindings)
}

type CallCtx struct {
	fr  *Frame
	dst ssa.Value
	fn  *ssa.Function
	cc  *ssa.CallCommon
}

type StubRes struct {
	v       Val
	blocked bool // thread could not proceed; re-execute the call later
	pushed  bool // stub pushed a frame; result delivered via callInst
}

type Stub func(e *Exec, th *Thread, c *CallCtx, args []Val) StubRes

func ret(v Val) StubRes { return StubRes{v: v} }

var stubs = map[string]Stub{}

// packages whose SSA bodies are executed as real code
var execPkgs = map[string]bool{
	"github.com/couchbaselabs/rosmar": true,
	"container/list":                  true,
	"github.com/couchbase/sg-bucket": true,
	"errors":                          false,
}

func (e *Exec) allowedPkg(fn *ssa.Function) bool {
	p := fn.Pkg
	if p == nil && fn.Origin() != nil {
		p = fn.Origin().Pkg
	}
	if p == nil {
		// synthetic wrappers / bound methods / anonymous funcs
		if fn.Parent() != nil {
			return e.allowedPkg(fn.Parent())
		}
		return true
	}
	if execPkgs[p.Pkg.Path()] {
		return true
	}
	if allowFuncs[fn.String()] {
		return true
	}
	return false
}

// individual foreign functions that are simple enough to run as real code
var allowFuncs = map[string]bool{}

// resolve the callee of a CallCommon
func (e *Exec) resolveCall(fr *Frame, cc *ssa.CallCommon) (Val, []Val) {
	var args []Val
	if cc.IsInvoke() {
		recv := e.get(fr, cc.Value)
		iv, ok := recv.(*IfaceV)
		if !ok || iv.T == nil {
			panic(goPanic{"invoke on nil interface: " + cc.Method.Name()})
		}
		fn := e.lookupMethod(iv.T, cc.Method)
		if fn == nil {
			panic(pathEnd{kind: "unsupported", msg: fmt.Sprintf("method %s not found on %s", cc.Method.Name(), iv.T)})
		}
		args = append(args, iv.V)
		for _, a := range cc.Args {
			args = append(args, e.get(fr, a))
		}
		return fn, args
	}
	fv := e.get(fr, cc.Value)
	for _, a := range cc.Args {
		args = append(args, e.get(fr, a))
	}
	return fv, args
}

func (e *Exec) lookupMethod(t types.Type, m *types.Func) Val {
	if t == sentinelType {
		name := m.Name()
		return &FuncV{nativeFn: func(e *Exec, th *Thread, args []Val) Val {
			if name == "Error" {
				nv := args[0].(*NativeV)
				return mkStr("sentinel:" + nv.Data.(string))
			}
			panic(pathEnd{kind: "unsupported", msg: "sentinel method " + name})
		}}
	}
	if nt, ok := nativeTypeMethods(t, m.Name()); ok {
		return nt
	}
	ms := e.L.prog.MethodSets.MethodSet(t)
	sel := ms.Lookup(m.Pkg(), m.Name())
	if sel == nil {
		return nil
	}
	fn := e.L.prog.MethodValue(sel)
	if fn == nil {
		return nil
	}
	return &FuncV{fn: fn}
}

// ---------- main loop ----------

func (e *Exec) step(th *Thread) {
	fr := th.top()
	if fr.pc >= len(fr.block.Instrs) {
		panic("pc past end of block in " + fr.fn.String())
	}
	instr := fr.block.Instrs[fr.pc]
	e.steps++
	if e.steps > e.maxSteps {
		panic(pathEnd{kind: "bound", msg: "step limit"})
	}
	if debugTrace {
		fmt.Fprintf(os.Stderr, "[t%d] %s: %s\n", th.id, fr.fn.Name(), instrString(instr))
	}
	e.exec(th, fr, instr)
}

var debugTrace = os.Getenv("GOSMT_TRACE") != ""

func instrString(i ssa.Instruction) string {
	if v, ok := i.(ssa.Value); ok {
		return v.Name() + " = " + i.String()
	}
	return i.String()
}

func (e *Exec) jump(fr *Frame, to *ssa.BasicBlock) {
	fr.prev = fr.block
	fr.block = to
	fr.pc = 0
	fr.visits[to.Index]++
	if fr.visits[to.Index] > e.loopBound {
		panic(pathEnd{kind: "bound", msg: fmt.Sprintf("loop bound %d exceeded in %s block %d", e.loopBound, fr.fn, to.Index)})
	}
}

func (e *Exec) exec(th *Thread, fr *Frame, instr ssa.Instruction) {
	switch in := instr.(type) {
	case *ssa.DebugRef:
		fr.pc++
	case *ssa.Phi:
		// evaluate all phis of the block simultaneously
		var vals []Val
		var phis []*ssa.Phi
		i := fr.pc
		for ; i < len(fr.block.Instrs); i++ {
			p, ok := fr.block.Instrs[i].(*ssa.Phi)
			if !ok {
				break
			}
			idx := -1
			for k, pred := range fr.block.Preds {
				if pred == fr.prev {
					idx = k
					break
				}
			}
			if idx < 0 {
				panic("phi: predecessor not found")
			}
			vals = append(vals, e.get(fr, p.Edges[idx]))
			phis = append(phis, p)
		}
		for k, p := range phis {
			fr.locals[p] = vals[k]
		}
		fr.pc = i
	case *ssa.Jump:
		e.jump(fr, fr.block.Succs[0])
	case *ssa.If:
		c := e.get(fr, in.Cond).(*Term)
		if e.branch(c) {
			e.jump(fr, fr.block.Succs[0])
		} else {
			e.jump(fr, fr.block.Succs[1])
		}
	case *ssa.Return:
		var rv Val
		switch len(in.Results) {
		case 0:
		case 1:
			rv = e.get(fr, in.Results[0])
		default:
			tv := make(TupleV, len(in.Results))
			for i, r := range in.Results {
				tv[i] = e.get(fr, r)
			}
			rv = tv
		}
		e.doReturn(th, rv)
	case *ssa.RunDefers:
		if len(fr.defers) == 0 {
			fr.pc++
			return
		}
		d := fr.defers[len(fr.defers)-1]
		fr.defers = fr.defers[:len(fr.defers)-1]
		// stay on this instruction until the list is empty
		nframes := len(th.frames)
		e.callValue(th, fr, nil, d.fn, d.args, d.call)
		if th.blocked != nil && len(th.frames) == nframes {
			// blocked in a deferred stub: put it back
			fr.defers = append(fr.defers, d)
		}
	case *ssa.Panic:
		v := e.get(fr, in.X)
		panic(goPanic{"panic: " + e.describePanic(v)})
	case *ssa.Go:
		fv, args := e.resolveCall(fr, &in.Call)
		e.spawn(fv, args, "go:"+fr.fn.Name())
		fr.pc++
	case *ssa.Defer:
		fv, args := e.resolveCall(fr, &in.Call)
		fr.defers = append(fr.defers, deferred{fn: fv, args: args, call: &in.Call})
		fr.pc++
	case *ssa.Store:
		p := e.get(fr, in.Addr).(*PtrV)
		p.store(e.get(fr, in.Val))
		fr.pc++
	case *ssa.MapUpdate:
		e.mapUpdate(e.get(fr, in.Map), e.get(fr, in.Key), e.get(fr, in.Value))
		fr.pc++
	case *ssa.Send:
		ch := e.get(fr, in.Chan).(*ChanV)
		if !e.chanSend(th, ch, e.get(fr, in.X)) {
			return // blocked
		}
		fr.pc++
	case *ssa.Call:
		fv, args := e.resolveCall(fr, &in.Call)
		nframes := len(th.frames)
		fr.pc++ // advance first; callee result delivered into locals
		e.callValue(th, fr, in, fv, args, &in.Call)
		if th.blocked != nil && len(th.frames) == nframes {
			fr.pc-- // retry this call when unblocked
		}
	case ssa.Value:
		v := e.evalValue(th, fr, in)
		if v == blockedMarker {
			return
		}
		fr.locals[in] = v
		fr.pc++
	default:
		panic(pathEnd{kind: "unsupported", msg: fmt.Sprintf("instruction %T", instr)})
	}
}

var blockedMarker = &NativeV{Kind: "blocked"}

func (e *Exec) describePanic(v Val) string {
	if iv, ok := v.(*IfaceV); ok {
		if t, ok := iv.V.(*Term); ok {
			if t.IsConst() && t.S == SStr {
				return t.Str
			}
			return t.String()
		}
		return describe(iv.V)
	}
	return describe(v)
}

func (e *Exec) spawn(fv Val, args []Val, name string) *Thread {
	th := &Thread{id: len(e.threads), name: name}
	e.threads = append(e.threads, th)
	f := fv.(*FuncV)
	if f.nativeFn != nil || f.native != "" {
		panic(pathEnd{kind: "unsupported", msg: "go of native func"})
	}
	sname := f.fn.String()
	if _, ok := stubs[sname]; ok {
		panic(pathEnd{kind: "unsupported", msg: "go of stubbed func " + sname})
	}
	e.pushFrame(th, f.fn, args, f.bindings)
	return th
}

// ---------- value instructions ----------

func (e *Exec) evalValue(th *Thread, fr *Frame, in ssa.Value) Val {
	switch x := in.(type) {
	case *ssa.Alloc:
		et := x.Type().(*types.Pointer).Elem()
		return &PtrV{c: e.newCell(zeroVal(et), x.Comment)}
	case *ssa.BinOp:
		return e.binop(x.Op, e.get(fr, x.X), e.get(fr, x.Y), x.X.Type(), x.Y.Type())
	case *ssa.UnOp:
		return e.unop(th, fr, x)
	case *ssa.FieldAddr:
		p := e.get(fr, x.X).(*PtrV)
		return p.sub(x.Field)
	case *ssa.Field:
		return e.get(fr, x.X).(*StructV).F[x.Field]
	case *ssa.IndexAddr:
		base := e.get(fr, x.X)
		idx := 0
		if _, isBytes := base.(*BytesV); !isBytes {
			idx = e.concreteInt(e.get(fr, x.Index), "IndexAddr index")
		}
		switch b := base.(type) {
		case *PtrV: // pointer to array
			return b.sub(idx)
		case *SliceV:
			if b.isNil || idx < 0 || idx >= b.ln {
				panic(goPanic{fmt.Sprintf("index out of range [%d] with length %d", idx, b.ln)})
			}
			return &PtrV{c: b.c, path: []int{b.off + idx}}
		case *BytesV:
			return &NativeV{Kind: "byteptr", Data: []interface{}{b, e.toInt(e.get(fr, x.Index), x.Index.Type())}}
		}
		panic(fmt.Sprintf("IndexAddr on %T", base))
	case *ssa.Index:
		base := e.get(fr, x.X)
		switch b := base.(type) {
		case *ArrayV:
			return b.E[e.concreteInt(e.get(fr, x.Index), "Index")]
		case *Term: // string index
			return tStrByteAt(b, e.toInt(e.get(fr, x.Index), x.Index.Type()))
		}
		panic(fmt.Sprintf("Index on %T", base))
	case *ssa.Lookup:
		base := e.get(fr, x.X)
		if s, ok := base.(*Term); ok { // string[i]
			idx := e.toInt(e.get(fr, x.Index), x.Index.Type())
			e.boundsCheck(idx, tStrLen(s))
			return tStrByteAt(s, idx)
		}
		m := base.(*MapV)
		v, found := e.mapLookup(m, e.get(fr, x.Index))
		if !found {
			v = zeroVal(x.X.Type().Underlying().(*types.Map).Elem())
		}
		if x.CommaOk {
			return TupleV{v, mkBool(found)}
		}
		return v
	case *ssa.Extract:
		return e.get(fr, x.Tuple).(TupleV)[x.Index]
	case *ssa.MakeInterface:
		return &IfaceV{T: x.X.Type(), V: e.get(fr, x.X)}
	case *ssa.ChangeInterface:
		return e.get(fr, x.X)
	case *ssa.ChangeType:
		v := e.get(fr, x.X)
		if fs, ok := sortOf(x.X.Type()); ok {
			if ts, ok2 := sortOf(x.Type()); ok2 && fs != ts {
				return e.convert(v, x.X.Type(), x.Type())
			}
		}
		return v
	case *ssa.Convert:
		return e.convert(e.get(fr, x.X), x.X.Type(), x.Type())
	case *ssa.MakeClosure:
		f := x.Fn.(*ssa.Function)
		var b []Val
		for _, bv := range x.Bindings {
			b = append(b, e.get(fr, bv))
		}
		return &FuncV{fn: f, bindings: b}
	case *ssa.MakeMap:
		e.cellCtr++
		return &MapV{id: e.cellCtr}
	case *ssa.MakeChan:
		e.cellCtr++
		return &ChanV{id: e.cellCtr, cap: e.concreteInt(e.get(fr, x.Size), "chan size")}
	case *ssa.MakeSlice:
		n := e.concreteInt(e.get(fr, x.Len), "MakeSlice len")
		c := e.concreteInt(e.get(fr, x.Cap), "MakeSlice cap")
		st := x.Type().Underlying().(*types.Slice)
		if isByteSlice(x.Type()) {
			return bytesConst(strings.Repeat("\x00", n))
		}
		av := &ArrayV{E: make([]Val, c)}
		for i := range av.E {
			av.E[i] = zeroVal(st.Elem())
		}
		return &SliceV{c: e.newCell(av, "makeslice"), ln: n, cp: c}
	case *ssa.Slice:
		return e.sliceOp(fr, x)
	case *ssa.TypeAssert:
		return e.typeAssert(e.get(fr, x.X), x)
	case *ssa.Range:
		return e.rangeInit(e.get(fr, x.X))
	case *ssa.Next:
		return e.rangeNext(e.get(fr, x.Iter), x)
	case *ssa.Select:
		panic(pathEnd{kind: "unsupported", msg: "select"})
	}
	panic(pathEnd{kind: "unsupported", msg: fmt.Sprintf("value instruction %T in %s", in, fr.fn)})
}

func (e *Exec) boundsCheck(idx, ln *Term) {
	ok := tAnd(tIntCmp(">=", idx, mkInt(0)), tIntCmp("<", idx, ln))
	if !e.branch(ok) {
		panic(goPanic{"index out of range"})
	}
}

func (e *Exec) concreteInt(v Val, what string) int {
	t, ok := v.(*Term)
	if !ok || !t.IsConst() {
		panic(pathEnd{kind: "unsupported", msg: "symbolic " + what})
	}
	if t.S.K == KInt {
		return int(t.I.Int64())
	}
	return int(t.U)
}

// toInt converts an integer term to sort Int.
func (e *Exec) toInt(v Val, t types.Type) *Term {
	tm := v.(*Term)
	if tm.S.K == KInt {
		return tm
	}
	return tBV2Int(tm, isSignedBasic(t))
}

func (e *Exec) unop(th *Thread, fr *Frame, x *ssa.UnOp) Val {
	v := e.get(fr, x.X)
	switch x.Op {
	case token.MUL: // load
		if nv, ok := v.(*NativeV); ok && nv.Kind == "byteptr" {
			d := nv.Data.([]interface{})
			b, idx := d[0].(*BytesV), d[1].(*Term)
			e.boundsCheck(idx, tStrLen(b.S))
			return tStrByteAt(b.S, idx)
		}
		return v.(*PtrV).load()
	case token.NOT:
		return tNot(v.(*Term))
	case token.SUB:
		t := v.(*Term)
		if t.S.K == KInt {
			return tIntBin("-", mkInt(0), t)
		}
		return tBVNeg(t)
	case token.XOR:
		return tBVNot(v.(*Term))
	case token.ARROW:
		ch := v.(*ChanV)
		val, ok, blocked := e.chanRecv(th, ch)
		if blocked {
			return blockedMarker
		}
		if val == nil {
			val = zeroVal(x.X.Type().Underlying().(*types.Chan).Elem())
		}
		if x.CommaOk {
			return TupleV{val, mkBool(ok)}
		}
		return val
	}
	panic(fmt.Sprintf("unop %v", x.Op))
}

func (e *Exec) convert(v Val, from, to types.Type) Val {
	// string <-> []byte
	if isByteSlice(to) {
		if s, ok := v.(*Term); ok && isStrLike(s.S) {
			return bytesOf(s)
		}
		return v
	}
	fs, fok := sortOf(from)
	ts, tok := sortOf(to)
	if tok && ts == SStr {
		if b, ok := v.(*BytesV); ok {
			return b.S
		}
		if fok && fs == SStr {
			return v
		}
		// string(rune)
		t := v.(*Term)
		if t.IsConst() {
			if t.S.K == KInt {
				return mkStr(string(rune(t.I.Int64())))
			}
			return mkStr(string(rune(t.U)))
		}
		panic(pathEnd{kind: "unsupported", msg: "string(symbolic rune)"})
	}
	if fok && tok {
		t := v.(*Term)
		switch {
		case fs == ts:
			return t
		case fs.K == KBV && ts.K == KBV:
			return tBVResize(t, ts.W, isSignedBasic(from))
		case fs.K == KBV && ts.K == KInt:
			return tBV2Int(t, isSignedBasic(from))
		case fs.K == KInt && ts.K == KBV:
			return tInt2BV(t, ts.W)
		}
	}
	if _, ok := to.Underlying().(*types.Basic); ok {
		if nv, ok := v.(*NativeV); ok && nv.Kind == "float" {
			return v
		}
		if b, ok := to.Underlying().(*types.Basic); ok && b.Info()&types.IsFloat != 0 {
			return &NativeV{Kind: "float", Data: 0.0}
		}
	}
	// pointer/unsafe conversions etc.
	return v
}

func (e *Exec) sliceOp(fr *Frame, x *ssa.Slice) Val {
	base := e.get(fr, x.X)
	var lo, hi *Term
	if x.Low != nil {
		lo = e.toInt(e.get(fr, x.Low), x.Low.Type())
	}
	if x.High != nil {
		hi = e.toInt(e.get(fr, x.High), x.High.Type())
	}
	switch b := base.(type) {
	case *Term: // string slicing
		if lo == nil {
			lo = mkInt(0)
		}
		if hi == nil {
			hi = tStrLen(b)
		}
		if b.IsConst() && lo.IsConst() && hi.IsConst() {
			return mkStr(b.Str[lo.I.Int64():hi.I.Int64()])
		}
		return mkOp("str.substr", SStr, b, lo, tIntBin("-", hi, lo))
	case *BytesV:
		if lo == nil {
			lo = mkInt(0)
		}
		if hi == nil {
			hi = tStrLen(b.S)
		}
		if b.S.IsConst() && lo.IsConst() && hi.IsConst() {
			return bytesConst(b.S.Str[lo.I.Int64():hi.I.Int64()])
		}
		return &BytesV{Nil: b.Nil, S: mkOp("str.substr", SStr, b.S, lo, tIntBin("-", hi, lo))}
	case *SliceV:
		l, h := 0, b.ln
		if lo != nil {
			l = e.concreteInt(lo, "slice low")
		}
		if hi != nil {
			h = e.concreteInt(hi, "slice high")
		}
		if l < 0 || h > b.cp || l > h {
			panic(goPanic{fmt.Sprintf("slice bounds out of range [%d:%d] cap %d", l, h, b.cp)})
		}
		if b.isNil {
			return b
		}
		return &SliceV{c: b.c, off: b.off + l, ln: h - l, cp: b.cp - l}
	case *PtrV: // slicing pointer-to-array
		arr := b.load().(*ArrayV)
		l, h := 0, len(arr.E)
		if lo != nil {
			l = e.concreteInt(lo, "slice low")
		}
		if hi != nil {
			h = e.concreteInt(hi, "slice high")
		}
		if len(b.path) != 0 {
			// copy out: nested arrays are rare (varargs arrays are top-level cells)
			c := e.newCell(&ArrayV{E: append([]Val(nil), arr.E...)}, "arrcopy")
			return &SliceV{c: c, off: l, ln: h - l, cp: len(arr.E) - l}
		}
		return &SliceV{c: b.c, off: l, ln: h - l, cp: len(arr.E) - l}
	}
	panic(fmt.Sprintf("sliceOp on %T", base))
}

func (s *SliceV) elems() []Val {
	if s.isNil || s.ln == 0 {
		return nil
	}
	return s.c.v.(*ArrayV).E[s.off : s.off+s.ln]
}

func (e *Exec) newSlice(elems []Val) *SliceV {
	av := &ArrayV{E: append([]Val(nil), elems...)}
	return &SliceV{c: e.newCell(av, "slice"), ln: len(elems), cp: len(elems)}
}

// ---------- type assertions ----------

func (e *Exec) typeAssert(v Val, x *ssa.TypeAssert) Val {
	iv, _ := v.(*IfaceV)
	ok := false
	var res Val
	if iv != nil && iv.T != nil {
		if _, isIface := x.AssertedType.Underlying().(*types.Interface); isIface {
			if iv.T == sentinelType {
				ok = isErrorIface(x.AssertedType)
			} else {
				ok = types.Implements(iv.T, x.AssertedType.Underlying().(*types.Interface))
			}
			res = iv
		} else {
			ok = iv.T != sentinelType && types.Identical(iv.T, x.AssertedType)
			res = iv.V
		}
	}
	if !ok {
		if x.CommaOk {
			return TupleV{zeroVal(x.AssertedType), tFalse}
		}
		panic(goPanic{fmt.Sprintf("interface conversion: not %s", x.AssertedType)})
	}
	if x.CommaOk {
		return TupleV{res, tTrue}
	}
	return res
}

func isErrorIface(t types.Type) bool {
	it, ok := t.Underlying().(*types.Interface)
	if !ok {
		return false
	}
	return it.NumMethods() == 1 && it.Method(0).Name() == "Error" || it.NumMethods() == 0
}

var sentinelType types.Type = types.NewNamed(types.NewTypeName(token.NoPos, nil, "sentinelError", nil), types.NewStruct(nil, nil), nil)

func minInt(a, b int) int {
	if a < b {
		return a
	}
	return b
}

func shortFile(f string) string {
	if i := strings.LastIndex(f, "/"); i >= 0 {
		return f[i+1:]
	}
	return f
}
