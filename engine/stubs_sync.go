package main

import (
	"fmt"
	"time"
)

type timerObj struct {
	id     int
	armed  bool
	dur    *Term // BV64 nanoseconds (time.Duration)
	fn     Val
	fired  int
	setAt  *Term // model seconds when armed
	resets int
}

type waitSt struct {
	key       string
	signalled bool
}

func init() {
	allowFuncs["sync.NewCond"] = true

	stubs["(*sync.Mutex).Lock"] = func(e *Exec, th *Thread, c *CallCtx, a []Val) StubRes {
		if !e.mutexLock(th, a[0].(*PtrV)) {
			return StubRes{blocked: true}
		}
		return ret(nil)
	}
	stubs["(*sync.Mutex).Unlock"] = func(e *Exec, th *Thread, c *CallCtx, a []Val) StubRes {
		e.mutexUnlock(th, a[0].(*PtrV))
		return ret(nil)
	}
	stubs["(*sync.Mutex).TryLock"] = func(e *Exec, th *Thread, c *CallCtx, a []Val) StubRes {
		m := e.mutexOf(a[0].(*PtrV))
		if m.held {
			return ret(tFalse)
		}
		m.held = true
		m.owner = th.id
		return ret(tTrue)
	}
	stubs["(*sync.Cond).Wait"] = func(e *Exec, th *Thread, c *CallCtx, a []Val) StubRes {
		cp := a[0].(*PtrV)
		L := cp.sub(1).load().(*IfaceV).V.(*PtrV)
		m := e.mutexOf(L)
		if th.wait == nil {
			e.visibleAction(th, "cond.wait")
			if !m.held {
				panic(goPanic{"sync: unlock of unlocked mutex (cond.Wait)"})
			}
			m.held = false
			st := &waitSt{key: cp.key()}
			th.wait = st
			e.condWaiters[st.key] = append(e.condWaiters[st.key], st)
			e.block(th, func() bool { return st.signalled && !m.held }, "cond.Wait "+st.key)
			return StubRes{blocked: true}
		}
		if !th.wait.signalled || m.held {
			st := th.wait
			e.block(th, func() bool { return st.signalled && !m.held }, "cond.Wait "+st.key)
			return StubRes{blocked: true}
		}
		th.wait = nil
		m.held = true
		m.owner = th.id
		return ret(nil)
	}
	stubs["(*sync.Cond).Signal"] = func(e *Exec, th *Thread, c *CallCtx, a []Val) StubRes {
		k := a[0].(*PtrV).key()
		ws := e.condWaiters[k]
		if len(ws) > 0 {
			ws[0].signalled = true
			e.condWaiters[k] = ws[1:]
		}
		return ret(nil)
	}
	stubs["(*sync.Cond).Broadcast"] = func(e *Exec, th *Thread, c *CallCtx, a []Val) StubRes {
		k := a[0].(*PtrV).key()
		for _, w := range e.condWaiters[k] {
			w.signalled = true
		}
		e.condWaiters[k] = nil
		return ret(nil)
	}
	stubs["(*sync.Once).Do"] = func(e *Exec, th *Thread, c *CallCtx, a []Val) StubRes {
		k := a[0].(*PtrV).key()
		if e.onces[k] {
			return ret(nil)
		}
		e.onces[k] = true
		f := a[1].(*FuncV)
		c.fr.callInst = nil
		e.pushFrame(th, f.fn, nil, f.bindings)
		return StubRes{pushed: true}
	}
	stubs["(*sync.WaitGroup).Add"] = func(e *Exec, th *Thread, c *CallCtx, a []Val) StubRes {
		k := a[0].(*PtrV).key()
		e.wgs[k] += e.concreteInt(a[1], "WaitGroup.Add")
		return ret(nil)
	}
	stubs["(*sync.WaitGroup).Done"] = func(e *Exec, th *Thread, c *CallCtx, a []Val) StubRes {
		k := a[0].(*PtrV).key()
		e.wgs[k]--
		return ret(nil)
	}
	stubs["(*sync.WaitGroup).Wait"] = func(e *Exec, th *Thread, c *CallCtx, a []Val) StubRes {
		k := a[0].(*PtrV).key()
		e.visibleAction(th, "wg.wait")
		if e.wgs[k] > 0 {
			e.block(th, func() bool { return e.wgs[k] <= 0 }, "WaitGroup "+k)
			return StubRes{blocked: true}
		}
		return ret(nil)
	}

	atomicAdd := func(e *Exec, th *Thread, c *CallCtx, a []Val) StubRes {
		p := a[0].(*PtrV)
		nv := tBVBin("bvadd", p.load().(*Term), a[1].(*Term))
		p.store(nv)
		return ret(nv)
	}
	stubs["sync/atomic.AddUint32"] = atomicAdd
	stubs["sync/atomic.AddInt32"] = atomicAdd
	stubs["sync/atomic.AddUint64"] = atomicAdd
	stubs["sync/atomic.AddInt64"] = atomicAdd
	atomicLoad := func(e *Exec, th *Thread, c *CallCtx, a []Val) StubRes {
		return ret(a[0].(*PtrV).load())
	}
	stubs["sync/atomic.LoadUint32"] = atomicLoad
	stubs["sync/atomic.LoadInt32"] = atomicLoad
	stubs["sync/atomic.LoadUint64"] = atomicLoad
	atomicStore := func(e *Exec, th *Thread, c *CallCtx, a []Val) StubRes {
		a[0].(*PtrV).store(a[1])
		return ret(nil)
	}
	stubs["sync/atomic.StoreUint32"] = atomicStore
	stubs["sync/atomic.StoreInt32"] = atomicStore

	// ---- time ----
	stubs["time.Now"] = func(e *Exec, th *Thread, c *CallCtx, a []Val) StubRes {
		return ret(&TimeV{Sec: e.nowSec()})
	}
	stubs["(time.Time).Unix"] = func(e *Exec, th *Thread, c *CallCtx, a []Val) StubRes {
		return ret(a[0].(*TimeV).Sec)
	}
	stubs["(time.Time).UnixNano"] = func(e *Exec, th *Thread, c *CallCtx, a []Val) StubRes {
		return ret(tBVBin("bvmul", a[0].(*TimeV).Sec, mkBV(64, 1000000000)))
	}
	stubs["time.Sleep"] = func(e *Exec, th *Thread, c *CallCtx, a []Val) StubRes { return ret(nil) }
	stubs["time.AfterFunc"] = func(e *Exec, th *Thread, c *CallCtx, a []Val) StubRes {
		t := &timerObj{id: len(e.timers), armed: true, dur: a[0].(*Term), fn: a[1], setAt: e.lastNow}
		e.timers = append(e.timers, t)
		return ret(&NativeV{Kind: "timer", Data: t})
	}
	stubs["(*time.Timer).Reset"] = func(e *Exec, th *Thread, c *CallCtx, a []Val) StubRes {
		nv, ok := a[0].(*NativeV)
		if !ok {
			panic(goPanic{"Timer.Reset on nil timer"})
		}
		t := nv.Data.(*timerObj)
		was := t.armed
		t.armed = true
		t.dur = a[1].(*Term)
		t.setAt = e.lastNow
		t.resets++
		return ret(mkBool(was))
	}
	stubs["(*time.Timer).Stop"] = func(e *Exec, th *Thread, c *CallCtx, a []Val) StubRes {
		nv, ok := a[0].(*NativeV)
		if !ok {
			panic(goPanic{"Timer.Stop on nil timer"})
		}
		t := nv.Data.(*timerObj)
		was := t.armed
		t.armed = false
		return ret(mkBool(was))
	}
	rp := "github.com/couchbaselabs/rosmar."
	stubs[rp+"verifTimerArmed"] = func(e *Exec, th *Thread, c *CallCtx, a []Val) StubRes {
		nv, ok := a[0].(*NativeV)
		if !ok {
			return ret(tFalse)
		}
		return ret(mkBool(nv.Data.(*timerObj).armed))
	}
	stubs[rp+"verifTimerWithin"] = func(e *Exec, th *Thread, c *CallCtx, a []Val) StubRes {
		nv, ok := a[0].(*NativeV)
		if !ok {
			return ret(tFalse)
		}
		t := nv.Data.(*timerObj)
		if !t.armed {
			return ret(tFalse)
		}
		exp := tBVResize(a[1].(*Term), 64, false)
		setAt := mkBV(64, 0)
		if t.setAt != nil {
			setAt = tBVResize(tBVResize(t.setAt, 32, false), 64, false) // nowAsExpiry truncates to uint32
		}
		secs := tBVBin("bvsub", exp, setAt)
		lim := tIte(tBVCmp("bvslt", secs, mkBV(64, 0)), mkBV(64, 0), tBVBin("bvmul", secs, mkBV(64, 1000000000)))
		if lim.Op == "ite" {
			// compare per case so that the overflow-free rewrite applies
			return ret(tIte(lim.Args[0], tBVCmp("bvsle", t.dur, lim.Args[1]), tBVCmp("bvsle", t.dur, lim.Args[2])))
		}
		return ret(tBVCmp("bvsle", t.dur, lim))
	}
	stubs["context.TODO"] = func(e *Exec, th *Thread, c *CallCtx, a []Val) StubRes {
		return ret(&IfaceV{T: sentinelType, V: &NativeV{Kind: "ctx", Data: "context.TODO"}})
	}
	stubs["context.Background"] = stubs["context.TODO"]
}

// nowSec returns a fresh, non-decreasing model instant (Int seconds) within
// [2020-01-01, 2100-01-01).
func (e *Exec) nowSec() *Term {
	if e.frozenNow != nil {
		return e.frozenNow
	}
	n := e.fresh("now", SBV(64))
	lo := mkBV(64, 1577836800)
	if e.lastNow != nil {
		lo = e.lastNow
	}
	e.assume(tBVCmp("bvuge", n, lo))
	e.assume(tBVCmp("bvult", n, mkBV(64, 4102444800)))
	e.lastNow = n
	// replay runs against the real clock: prefer models whose instants are "about now"
	real := uint64(time.Now().Unix())
	e.nice = append(e.nice, tAnd(tBVCmp("bvuge", n, mkBV(64, real+5)), tBVCmp("bvule", n, mkBV(64, real+90))))
	e.inputs = append(e.inputs, inputRec{Name: n.Name, T: n, Kind: "u64"})
	return n
}

func (t *timerObj) String() string { return fmt.Sprintf("timer%d", t.id) }
