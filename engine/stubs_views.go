package main

// Stubs for views (C12): the JavaScript map function is an uninterpreted
// function of (view source, doc id, doc text, xattrs over the universe) that
// emits at most one row per document or throws (stated bound); JSON collation is an
// uninterpreted order; reduce/post-processing (sgbucket.ProcessParsed) is cut.

import (
	"fmt"
	"go/types"
)

// mapArgs: the uninterpreted map function's arguments from a JSMapFunctionInput.
func (e *Exec) mapArgsFromInput(in *StructV) []*Term {
	// fields: Doc, DocID, VbNo, VbSeq, Xattrs
	doc := in.F[0].(*Term)
	id := in.F[1].(*Term)
	args := []*Term{toBlob(id), toBlob(doc)}
	xm, _ := in.F[4].(*MapV)
	for _, u := range e.universe() {
		h := tFalse
		g := toBlob(mkStr(""))
		if xm != nil && !xm.isNil {
			for _, en := range xm.entries {
				is := tEq(en.k.(*Term), u)
				h = tOr(h, is)
				g = tIte(is, toBlob(en.v.(*BytesV).S), g)
			}
		}
		args = append(args, tIte(h, mkBV(8, 1), mkBV(8, 0)), g)
	}
	return args
}

func mapUFs(n int, args []*Term) (emits, key, val *Term) {
	// a map function may also throw for a document (otto error): then it emits nothing; the
	// oracle and the stubbed CallFunction share the same uninterpreted "throws" predicate
	emits = tAnd(tNot(mapThrows(n, args)), mkUF(fmt.Sprintf("mapEmits%d", n), SBool, args...))
	key = mkUF(fmt.Sprintf("mapKey%d", n), SBlob, args...)
	val = mkUF(fmt.Sprintf("mapVal%d", n), SBlob, args...)
	return
}

func mapThrows(n int, args []*Term) *Term {
	return mkUF(fmt.Sprintf("mapThrows%d", n), SBool, args...)
}

func (e *Exec) emittedAxioms(key, val *Term) {
	for _, t := range []*Term{key, val} {
		k := "emit:" + t.String()
		if e.axiomsDone[k] {
			continue
		}
		e.axiomsDone[k] = true
		e.assume(jsonValid(t))
		e.assume(tEq(jcanon(t), t))
		e.assume(tNe(t, mkStr("")))
		e.assume(tNe(t, nullBlob))
	}
}

func init() {
	sg := "github.com/couchbase/sg-bucket."
	stubs[sg+"NewJSMapFunction"] = func(e *Exec, th *Thread, c *CallCtx, a []Val) StubRes {
		return ret(&NativeV{Kind: "jsmap", Data: a[1]})
	}
	stubs["(*"+sg+"JSMapFunction).CallFunction"] = func(e *Exec, th *Thread, c *CallCtx, a []Val) StubRes {
		in := a[2].(*PtrV).load().(*StructV)
		// the function is the one compiled from this source (a stale cached function shows here)
		src := a[0].(*NativeV).Data.(*Term)
		args := append([]*Term{toBlob(src)}, e.mapArgsFromInput(in)...)
		emits, key, val := mapUFs(len(e.universe()), args)
		rowT := c.fn.Signature.Results().At(0).Type().Underlying().(*types.Slice).Elem()
		// (quick tier only: the thorough tier's deeper bounds were validated with a map function
		// that never throws; there the predicate is assumed false, which keeps the oracle consistent)
		if e.thorough {
			e.assume(tNot(mapThrows(len(e.universe()), args)))
		} else if e.branch(mapThrows(len(e.universe()), args)) {
			return ret(TupleV{&SliceV{isNil: true}, e.newError("jsmap", "the map function threw an exception")})
		}
		if !e.branch(emits) {
			return ret(TupleV{&SliceV{isNil: true}, nilIface})
		}
		e.emittedAxioms(key, val)
		rt := rowT.(*types.Pointer).Elem()
		row := zeroVal(rt).(*StructV)
		row.F[0] = in.F[1]
		row.F[1] = e.jval(key)
		row.F[2] = e.jval(val)
		p := &PtrV{c: e.newCell(row, "viewrow")}
		return ret(TupleV{e.newSlice([]Val{p}), nilIface})
	}
	stubs[sg+"VBHash"] = func(e *Exec, th *Thread, c *CallCtx, a []Val) StubRes {
		return ret(mkUF("vbhash", SBV(32), toBlob(a[0].(*Term))))
	}
	stubs["(*"+sg+"ViewResult).ProcessParsed"] = func(e *Exec, th *Thread, c *CallCtx, a []Val) StubRes {
		return ret(nilIface)
	}
	// interfaceToInt (reflection): Go ints pass through, anything else is outside the stub
	stubs[sg+"interfaceToInt"] = func(e *Exec, th *Thread, c *CallCtx, a []Val) StubRes {
		iv, _ := a[0].(*IfaceV)
		if iv != nil && iv.T != nil {
			if b, ok := iv.T.Underlying().(*types.Basic); ok && b.Kind() == types.Int {
				return ret(TupleV{iv.V, nilIface})
			}
		}
		panic(pathEnd{kind: "unsupported", msg: "interfaceToInt of a non-int value"})
	}
	stubs["reflect.DeepEqual"] = func(e *Exec, th *Thread, c *CallCtx, a []Val) StubRes {
		return ret(tFalse) // PutDDoc's "unchanged" shortcut is not taken (re-creating is always allowed)
	}

	p := rosmarPath + "."
	// oracle side: the same uninterpreted map function applied to a stored row
	docArgs := func(e *Exec, d *StructV, st *types.Struct) []*Term {
		f := func(name string) Val {
			for i := 0; i < st.NumFields(); i++ {
				if st.Field(i).Name() == name {
					return d.F[i]
				}
			}
			panic("verifDoc field " + name)
		}
		key := f("Key").(*Term)
		val := f("Value").(*BytesV)
		isJSON := f("IsJSON").(*Term)
		x := f("Xattrs").(*BytesV)
		docText := tIte(tAnd(tEq(isJSON, mkBV(64, 1)), tNot(val.Nil)), toBlob(val.S), toBlob(mkStr("{}")))
		src, ok := e.world["mapSrc"].(*Term)
		if !ok {
			panic(pathEnd{kind: "unsupported", msg: "view oracle used before verifMapSource"})
		}
		args := []*Term{toBlob(src), toBlob(key), docText}
		for _, u := range e.universe() {
			h := tAnd(tNot(x.Nil), tNe(x.S, nullBlob), tNe(x.S, mkStr("")), xhas(x.S, u))
			args = append(args, tIte(h, mkBV(8, 1), mkBV(8, 0)), tIte(h, xget(x.S, u), toBlob(mkStr(""))))
		}
		return args
	}
	stubs[p+"verifMapEmits"] = func(e *Exec, th *Thread, c *CallCtx, a []Val) StubRes {
		st := c.fn.Signature.Params().At(0).Type().Underlying().(*types.Struct)
		em, _, _ := mapUFs(len(e.universe()), docArgs(e, a[0].(*StructV), st))
		return ret(em)
	}
	stubs[p+"verifMapKey"] = func(e *Exec, th *Thread, c *CallCtx, a []Val) StubRes {
		st := c.fn.Signature.Params().At(0).Type().Underlying().(*types.Struct)
		_, k, _ := mapUFs(len(e.universe()), docArgs(e, a[0].(*StructV), st))
		return ret(bytesOf(k))
	}
	stubs[p+"verifMapValue"] = func(e *Exec, th *Thread, c *CallCtx, a []Val) StubRes {
		st := c.fn.Signature.Params().At(0).Type().Underlying().(*types.Struct)
		_, _, v := mapUFs(len(e.universe()), docArgs(e, a[0].(*StructV), st))
		return ret(bytesOf(v))
	}
	stubs[p+"verifCollLess"] = func(e *Exec, th *Thread, c *CallCtx, a []Val) StubRes {
		return ret(e.strLess(a[0].(*BytesV).S, a[1].(*BytesV).S))
	}
	stubs[p+"verifAnyJSON"] = func(e *Exec, th *Thread, c *CallCtx, a []Val) StubRes {
		// canonical JSON text of a parsed value (ViewRow.Key / Value)
		return ret(bytesOf(e.marshalAny(a[0])))
	}
	stubs[p+"verifMapSource"] = func(e *Exec, th *Thread, c *CallCtx, a []Val) StubRes {
		e.world["mapSrc"] = a[0].(*Term)
		return ret(nil)
	}
	stubs[p+"verifSymOnly"] = func(e *Exec, th *Thread, c *CallCtx, a []Val) StubRes {
		e.symOnly = true
		return ret(nil)
	}
}
