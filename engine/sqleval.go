package main

// Relational stub: bounded symbolic tables + evaluation of the parsed SQL
// subset with SQLite semantics (three-valued logic, signed 64-bit integers,
// UPSERT, ON DELETE CASCADE).

import (
	"fmt"
	"strings"
)

type sqlKind int

const (
	kNullK sqlKind = iota // untyped NULL literal
	kInt
	kText
	kBlob
	kBool // result of a comparison (INTEGER 0/1), payload in B
)

type SQLVal struct {
	K    sqlKind
	Null *Term // Bool
	I    *Term // BV64
	S    *Term // String
	B    *Term // Bool (kBool)
}

func sqlNull() SQLVal            { return SQLVal{K: kNullK, Null: tTrue} }
func sqlInt(t *Term) SQLVal      { return SQLVal{K: kInt, Null: tFalse, I: t} }
func sqlIntC(i int64) SQLVal     { return sqlInt(mkBV(64, uint64(i))) }
func sqlText(t *Term) SQLVal     { return SQLVal{K: kText, Null: tFalse, S: t} }
func sqlBlob(t *Term) SQLVal     { return SQLVal{K: kBlob, Null: tFalse, S: t} }
func sqlBool(b, null *Term) SQLVal { return SQLVal{K: kBool, Null: null, B: b} }

func (v SQLVal) asInt() SQLVal {
	if v.K == kBool {
		return SQLVal{K: kInt, Null: v.Null, I: tIte(v.B, mkBV(64, 1), mkBV(64, 0))}
	}
	return v
}

// truth: the value counts as true in a WHERE clause
func (v SQLVal) truth() *Term {
	switch v.K {
	case kBool:
		return tAnd(tNot(v.Null), v.B)
	case kInt:
		return tAnd(tNot(v.Null), tNe(v.I, mkBV(64, 0)))
	case kNullK:
		return tFalse
	}
	// text/blob in boolean context: numeric value of the text; not used by rosmar
	panic(pathEnd{kind: "unsupported", msg: "text in boolean context"})
}

func kindOfType(typ string) sqlKind {
	switch typ {
	case "integer", "int":
		return kInt
	case "text":
		return kText
	case "blob":
		return kBlob
	}
	return kBlob
}

func sqlIte(c *Term, a, b SQLVal) SQLVal {
	if c.IsConst() {
		if c.B {
			return a
		}
		return b
	}
	a, b = harmonize(a, b)
	r := SQLVal{K: a.K, Null: tIte(c, a.Null, b.Null)}
	switch a.K {
	case kInt:
		r.I = tIte(c, a.I, b.I)
	case kText, kBlob:
		r.S = tIte(c, a.S, b.S)
	case kBool:
		r.B = tIte(c, a.B, b.B)
	}
	return r
}

// harmonize gives two values a common kind (NULL literals adopt the other's kind).
func harmonize(a, b SQLVal) (SQLVal, SQLVal) {
	if a.K == kNullK && b.K == kNullK {
		return a, b
	}
	if a.K == kNullK {
		a = nullOfKind(b.K)
	}
	if b.K == kNullK {
		b = nullOfKind(a.K)
	}
	if a.K == kBool && b.K == kInt {
		a = a.asInt()
	}
	if b.K == kBool && a.K == kInt {
		b = b.asInt()
	}
	if a.K != b.K {
		if (a.K == kText || a.K == kBlob) && (b.K == kText || b.K == kBlob) {
			// mixed text/blob in one column: keep payload, mark as blob (storage class is
			// not tracked per value; stated simplification)
			a.K, b.K = kBlob, kBlob
			return a, b
		}
		panic(pathEnd{kind: "unsupported", msg: fmt.Sprintf("SQL value kinds differ: %d vs %d", a.K, b.K)})
	}
	return a, b
}

func nullOfKind(k sqlKind) SQLVal {
	switch k {
	case kInt:
		return SQLVal{K: kInt, Null: tTrue, I: mkBV(64, 0)}
	case kText, kBlob:
		return SQLVal{K: k, Null: tTrue, S: mkStr("")}
	case kBool:
		return SQLVal{K: kBool, Null: tTrue, B: tFalse}
	}
	return sqlNull()
}

func coerceToCol(v SQLVal, k sqlKind) SQLVal {
	if v.K == kNullK {
		return nullOfKind(k)
	}
	if v.K == kBool {
		v = v.asInt()
	}
	if v.K == k {
		return v
	}
	if (v.K == kText || v.K == kBlob) && (k == kText || k == kBlob) {
		v.K = k
		return v
	}
	panic(pathEnd{kind: "unsupported", msg: fmt.Sprintf("storing SQL kind %d into column kind %d", v.K, k)})
}

// ---------- schema / tables ----------

type TableDef struct {
	name   string
	cols   []*ColDef
	colIdx map[string]int
	unique [][]string
}

type SRow struct {
	present *Term
	cols    []SQLVal
}

func (r *SRow) clone() *SRow { return &SRow{present: r.present, cols: append([]SQLVal(nil), r.cols...)} }

type Table struct {
	def    *TableDef
	rows   []*SRow
	nextID int64
}

func (t *Table) clone() *Table {
	n := &Table{def: t.def, nextID: t.nextID, rows: make([]*SRow, len(t.rows))}
	copy(n.rows, t.rows) // rows are immutable once shared: writers replace them
	return n
}

type DBState struct {
	tables      map[string]*Table
	userVersion int64
}

func (s *DBState) clone() *DBState {
	n := &DBState{tables: map[string]*Table{}, userVersion: s.userVersion}
	for k, t := range s.tables {
		n.tables[k] = t.clone()
	}
	return n
}

type Schema struct {
	defs  map[string]*TableDef
	order []string
	tail  []interface{} // trailing INSERT/PRAGMA statements of the schema script
}

func parseSchema(src string) (*Schema, error) {
	stmts, err := parseSQL(src)
	if err != nil {
		return nil, err
	}
	sc := &Schema{defs: map[string]*TableDef{}}
	for _, st := range stmts {
		switch x := st.(type) {
		case *CreateTableStmt:
			td := &TableDef{name: strings.ToLower(x.name), cols: x.cols, colIdx: map[string]int{}, unique: x.unique}
			for i, c := range x.cols {
				td.colIdx[strings.ToLower(c.name)] = i
			}
			sc.defs[td.name] = td
			sc.order = append(sc.order, td.name)
		case *CreateIndexStmt:
		default:
			sc.tail = append(sc.tail, st)
		}
	}
	return sc, nil
}

// ---------- evaluation context ----------

type relRow struct {
	present *Term
	cols    map[string]SQLVal // "col" and "table.col"
	order   []string          // column order for SELECT *
	slot    int
}

type evalCtx struct {
	e      *Exec
	st     *DBState
	params map[string]SQLVal
	row    *relRow
}

func (c *evalCtx) lookupCol(table, name string) SQLVal {
	name = strings.ToLower(name)
	if table != "" {
		if v, ok := c.row.cols[strings.ToLower(table)+"."+name]; ok {
			return v
		}
	}
	if v, ok := c.row.cols[name]; ok {
		return v
	}
	panic(pathEnd{kind: "unsupported", msg: "SQL: unknown column " + table + "." + name})
}

func (c *evalCtx) eval(x Expr) SQLVal {
	switch n := x.(type) {
	case *ELit:
		switch n.kind {
		case "int":
			return sqlIntC(n.i)
		case "str":
			return sqlText(mkStr(n.s))
		case "null":
			return sqlNull()
		}
	case *EParam:
		if v, ok := c.params[n.name]; ok {
			return v
		}
		panic(pathEnd{kind: "unsupported", msg: "SQL: unbound parameter " + n.name})
	case *ECol:
		return c.lookupCol(n.table, n.name)
	case *EUn:
		v := c.eval(n.x)
		switch n.op {
		case "not":
			return sqlBool(tNot(v.truthRaw()), v.Null)
		case "isnull":
			return sqlBool(v.Null, tFalse)
		case "notnull":
			return sqlBool(tNot(v.Null), tFalse)
		}
	case *EBin:
		switch n.op {
		case "and":
			l, r := c.eval(n.l), c.eval(n.r)
			lt, rt := l.truthRaw(), r.truthRaw()
			lf := tAnd(tNot(l.Null), tNot(lt))
			rf := tAnd(tNot(r.Null), tNot(rt))
			isFalse := tOr(lf, rf)
			isNull := tAnd(tNot(isFalse), tOr(l.Null, r.Null))
			return sqlBool(tAnd(tNot(isFalse), tNot(isNull)), isNull)
		case "or":
			l, r := c.eval(n.l), c.eval(n.r)
			lt := tAnd(tNot(l.Null), l.truthRaw())
			rt := tAnd(tNot(r.Null), r.truthRaw())
			isTrue := tOr(lt, rt)
			isNull := tAnd(tNot(isTrue), tOr(l.Null, r.Null))
			return sqlBool(isTrue, isNull)
		case "=", "!=", "<", "<=", ">", ">=":
			l, r := c.eval(n.l), c.eval(n.r)
			return sqlCompare(n.op, l, r)
		case "||":
			l, r := c.eval(n.l), c.eval(n.r)
			null := tOr(l.Null, r.Null)
			if l.K == kNullK || r.K == kNullK {
				return sqlNull()
			}
			k := kText
			if l.K == kBlob && r.K == kBlob {
				k = kBlob
			}
			if l.K == kInt || r.K == kInt || l.K == kBool || r.K == kBool {
				panic(pathEnd{kind: "unsupported", msg: "SQL: || on integers"})
			}
			return SQLVal{K: k, Null: null, S: tIte(null, mkStr(""), tStrConcat(l.S, r.S))}
		case "+", "-":
			l, r := c.eval(n.l).asInt(), c.eval(n.r).asInt()
			op := "bvadd"
			if n.op == "-" {
				op = "bvsub"
			}
			return SQLVal{K: kInt, Null: tOr(l.Null, r.Null), I: tBVBin(op, l.I, r.I)}
		case "->>", "->":
			l, r := c.eval(n.l), c.eval(n.r)
			if r.K != kText || l.K == kInt || l.K == kBool {
				panic(pathEnd{kind: "unsupported", msg: "SQL: json extraction operands"})
			}
			if l.K == kNullK {
				return sqlNull()
			}
			fn := "jsonExtractText"
			if n.op == "->" {
				fn = "jsonExtractJSON"
			}
			// uninterpreted JSON extraction: (value, null) as functions of document text and path
			val := mkUF(fn, SStr, l.S, r.S)
			isNull := tOr(l.Null, mkUF(fn+"Null", SBool, l.S, r.S))
			return SQLVal{K: kText, Null: isNull, S: val}
		}
	case *EFunc:
		switch n.name {
		case "iif":
			cnd := c.eval(n.args[0])
			a, b := c.eval(n.args[1]), c.eval(n.args[2])
			if a.K == kNullK && b.K == kNullK {
				return a
			}
			return sqlIte(cnd.truth(), a, b)
		case "coalesce", "ifnull":
			// first non-NULL argument
			if len(n.args) == 0 {
				break
			}
			r := c.eval(n.args[len(n.args)-1])
			for i := len(n.args) - 2; i >= 0; i-- {
				a := c.eval(n.args[i])
				if a.K == kNullK {
					continue
				}
				if r.K == kNullK {
					r = a
					continue
				}
				r = sqlIte(tNot(a.Null), a, r)
			}
			return r
		case "max", "min":
			// scalar (multi-argument) form on integers: NULL if any argument is NULL
			if len(n.args) >= 2 {
				r := c.eval(n.args[0]).asInt()
				for _, ax := range n.args[1:] {
					a := c.eval(ax).asInt()
					op := "bvsgt"
					if n.name == "min" {
						op = "bvslt"
					}
					r = SQLVal{K: kInt, Null: tOr(r.Null, a.Null), I: tIte(tBVCmp(op, a.I, r.I), a.I, r.I)}
				}
				return r
			}
		case "case":
			// CASE WHEN c1 THEN v1 ... [ELSE e] END, args = c1, v1, ..., e (ELSE NULL if absent)
			r := c.eval(n.args[len(n.args)-1])
			for i := len(n.args) - 3; i >= 0; i -= 2 {
				r = sqlIte(c.eval(n.args[i]).truth(), c.eval(n.args[i+1]), r)
			}
			return r
		}
		panic(pathEnd{kind: "unsupported", msg: "SQL function " + n.name})
	case *EIn:
		v := c.eval(n.x)
		rel := c.e.evalSelectRel(c.st, n.sel, c.params)
		hit := tFalse
		for _, rr := range rel.rows {
			eq := sqlCompare("=", v, rr.vals[0])
			hit = tOr(hit, tAnd(rr.match, eq.truth()))
		}
		return sqlBool(hit, v.Null)
	}
	panic(pathEnd{kind: "unsupported", msg: fmt.Sprintf("SQL expr %T", x)})
}

// truthRaw: boolean payload ignoring NULL (callers combine with .Null)
func (v SQLVal) truthRaw() *Term {
	switch v.K {
	case kBool:
		return v.B
	case kInt:
		return tNe(v.I, mkBV(64, 0))
	case kNullK:
		return tFalse
	}
	panic(pathEnd{kind: "unsupported", msg: "text in boolean context"})
}

func sqlCompare(op string, l, r SQLVal) SQLVal {
	if l.K == kNullK || r.K == kNullK {
		return sqlBool(tFalse, tTrue)
	}
	if l.K == kBool {
		l = l.asInt()
	}
	if r.K == kBool {
		r = r.asInt()
	}
	null := tOr(l.Null, r.Null)
	var b *Term
	switch {
	case l.K == kInt && r.K == kInt:
		switch op {
		case "=":
			b = tEq(l.I, r.I)
		case "!=":
			b = tNe(l.I, r.I)
		case "<":
			b = tBVCmp("bvslt", l.I, r.I)
		case "<=":
			b = tBVCmp("bvsle", l.I, r.I)
		case ">":
			b = tBVCmp("bvsgt", l.I, r.I)
		case ">=":
			b = tBVCmp("bvsge", l.I, r.I)
		}
	case (l.K == kText || l.K == kBlob) && (r.K == kText || r.K == kBlob):
		// storage classes TEXT vs BLOB never compare equal in SQLite; a column's
		// class is static here, so a cross-class comparison is constant.
		if l.K != r.K {
			switch op {
			case "=":
				b = tFalse
			case "!=":
				b = tTrue
			default:
				panic(pathEnd{kind: "unsupported", msg: "SQL: ordering text vs blob"})
			}
		} else {
			switch op {
			case "=":
				b = tEq(l.S, r.S)
			case "!=":
				b = tNe(l.S, r.S)
			case "<":
				b = mkUF("sqlStrLess", SBool, toBlob(l.S), toBlob(r.S))
			case ">":
				b = mkUF("sqlStrLess", SBool, toBlob(r.S), toBlob(l.S))
			case "<=":
				b = tOr(tEq(l.S, r.S), mkUF("sqlStrLess", SBool, toBlob(l.S), toBlob(r.S)))
			case ">=":
				b = tOr(tEq(l.S, r.S), mkUF("sqlStrLess", SBool, toBlob(r.S), toBlob(l.S)))
			}
		}
	default:
		// INTEGER vs TEXT/BLOB: integers sort before text; never equal
		switch op {
		case "=":
			b = tFalse
		case "!=":
			b = tTrue
		default:
			panic(pathEnd{kind: "unsupported", msg: "SQL: ordering int vs text"})
		}
	}
	return sqlBool(b, null)
}

// ---------- relations ----------

type selRow struct {
	match *Term
	vals  []SQLVal
	sort  []SQLVal
}

type selRel struct {
	names []string
	rows  []selRow
	agg   bool
}

func tableRel(t *Table, alias string) []*relRow {
	var out []*relRow
	for si, r := range t.rows {
		rr := &relRow{present: r.present, cols: map[string]SQLVal{}, slot: si}
		for i, cd := range t.def.cols {
			n := strings.ToLower(cd.name)
			rr.cols[n] = r.cols[i]
			rr.cols[alias+"."+n] = r.cols[i]
			rr.order = append(rr.order, n)
		}
		out = append(out, rr)
	}
	return out
}

func (e *Exec) sourceRel(st *DBState, s *SelectStmt, name string, params map[string]SQLVal) []*relRow {
	lname := strings.ToLower(name)
	if s.with != nil && strings.ToLower(s.withName) == lname {
		sub := e.evalSelectRel(st, s.with, params)
		var out []*relRow
		for si, r := range sub.rows {
			rr := &relRow{present: r.match, cols: map[string]SQLVal{}, slot: si}
			for i, n := range sub.names {
				rr.cols[n] = r.vals[i]
				rr.cols[lname+"."+n] = r.vals[i]
				rr.order = append(rr.order, n)
			}
			out = append(out, rr)
		}
		return out
	}
	t, ok := st.tables[lname]
	if !ok {
		panic(pathEnd{kind: "unsupported", msg: "SQL: unknown table " + name})
	}
	return tableRel(t, lname)
}

func mergeRows(a, b *relRow, present *Term) *relRow {
	rr := &relRow{present: present, cols: map[string]SQLVal{}}
	for k, v := range a.cols {
		rr.cols[k] = v
	}
	for k, v := range b.cols {
		if _, dup := rr.cols[k]; dup && !strings.Contains(k, ".") {
			delete(rr.cols, k) // ambiguous unqualified name
			continue
		}
		rr.cols[k] = v
	}
	rr.order = append(append([]string(nil), a.order...), b.order...)
	return rr
}

func nullRow(like *relRow) *relRow {
	rr := &relRow{present: tTrue, cols: map[string]SQLVal{}, order: like.order}
	for k, v := range like.cols {
		rr.cols[k] = nullOfKind(v.K)
	}
	return rr
}

// evalSelectRel evaluates a SELECT into a symbolic relation (no ordering applied).
func (e *Exec) evalSelectRel(st *DBState, s *SelectStmt, params map[string]SQLVal) *selRel {
	var src []*relRow
	if s.from == "" {
		src = []*relRow{{present: tTrue, cols: map[string]SQLVal{}}}
	} else {
		src = e.sourceRel(st, s, s.from, params)
		if s.join != nil {
			right := e.sourceRel(st, s, s.join.table, params)
			var joined []*relRow
			matchedRight := make([]*Term, len(right))
			matchedLeft := make([]*Term, len(src))
			for i := range matchedRight {
				matchedRight[i] = tFalse
			}
			for i := range matchedLeft {
				matchedLeft[i] = tFalse
			}
			for li, l := range src {
				for ri, r := range right {
					m := mergeRows(l, r, tTrue)
					ctx := &evalCtx{e: e, st: st, params: params, row: m}
					on := ctx.eval(s.join.on).truth()
					p := tAnd(l.present, r.present, on)
					m.present = p
					joined = append(joined, m)
					matchedRight[ri] = tOr(matchedRight[ri], p)
					matchedLeft[li] = tOr(matchedLeft[li], p)
				}
			}
			if s.join.kind == "right" && len(src) > 0 {
				for ri, r := range right {
					m := mergeRows(nullRow(src[0]), r, tAnd(r.present, tNot(matchedRight[ri])))
					joined = append(joined, m)
				}
			} else if s.join.kind == "right" {
				for _, r := range right {
					joined = append(joined, r)
				}
			}
			if s.join.kind == "left" && len(right) > 0 {
				for li, l := range src {
					m := mergeRows(l, nullRow(right[0]), tAnd(l.present, tNot(matchedLeft[li])))
					joined = append(joined, m)
				}
			}
			src = joined
		}
	}
	rel := &selRel{}
	// aggregate min()
	if len(s.cols) == 1 && !s.cols[0].star {
		if f, ok := s.cols[0].e.(*EFunc); ok && f.name == "min" {
			acc := nullOfKind(kInt)
			for _, r := range src {
				ctx := &evalCtx{e: e, st: st, params: params, row: r}
				m := r.present
				if s.where != nil {
					m = tAnd(m, ctx.eval(s.where).truth())
				}
				v := ctx.eval(f.args[0]).asInt()
				if v.K != kInt {
					panic(pathEnd{kind: "unsupported", msg: "min() of non-integer"})
				}
				use := tAnd(m, tNot(v.Null), tOr(acc.Null, tBVCmp("bvslt", v.I, acc.I)))
				acc = sqlIte(use, v, acc)
			}
			rel.names = []string{"min"}
			rel.rows = []selRow{{match: tTrue, vals: []SQLVal{acc}}}
			rel.agg = true
			return rel
		}
	}
	first := true
	for _, r := range src {
		ctx := &evalCtx{e: e, st: st, params: params, row: r}
		m := r.present
		if s.where != nil {
			m = tAnd(m, ctx.eval(s.where).truth())
		}
		var vals []SQLVal
		var names []string
		for _, rc := range s.cols {
			if rc.star {
				for _, n := range r.order {
					vals = append(vals, r.cols[n])
					names = append(names, n)
				}
				continue
			}
			vals = append(vals, ctx.eval(rc.e))
			n := rc.alias
			if n == "" {
				if c, ok := rc.e.(*ECol); ok {
					n = c.name
				} else {
					n = fmt.Sprintf("col%d", len(names))
				}
			}
			names = append(names, strings.ToLower(n))
		}
		var sk []SQLVal
		for _, ot := range s.orderBy {
			sk = append(sk, ctx.eval(ot.e))
		}
		if first {
			rel.names = names
			first = false
		}
		rel.rows = append(rel.rows, selRow{match: m, vals: vals, sort: sk})
	}
	if first {
		// empty source: still need column names
		for i, rc := range s.cols {
			n := rc.alias
			if n == "" {
				if c, ok := rc.e.(*ECol); ok {
					n = c.name
				} else {
					n = fmt.Sprintf("col%d", i)
				}
			}
			rel.names = append(rel.names, strings.ToLower(n))
		}
	}
	return rel
}

// ---------- statement execution on a state ----------

type execResult struct {
	rowsAffected *Term // BV64
	lastInsertID int64
	err          string // constraint error etc. ("" = ok)
}

func (e *Exec) tableOf(st *DBState, name string) *Table {
	t, ok := st.tables[strings.ToLower(name)]
	if !ok {
		panic(pathEnd{kind: "unsupported", msg: "SQL: unknown table " + name})
	}
	return t
}

func boolToCount(b *Term) *Term { return tIte(b, mkBV(64, 1), mkBV(64, 0)) }

func rowAsRel(t *Table, r *SRow, si int) *relRow {
	rr := &relRow{present: r.present, cols: map[string]SQLVal{}, slot: si}
	for i, cd := range t.def.cols {
		n := strings.ToLower(cd.name)
		rr.cols[n] = r.cols[i]
		rr.cols[t.def.name+"."+n] = r.cols[i]
	}
	return rr
}

func (e *Exec) applySet(t *Table, r *SRow, si int, set []Assign, cond *Term, st *DBState, params map[string]SQLVal) *SRow {
	ctx := &evalCtx{e: e, st: st, params: params, row: rowAsRel(t, r, si)}
	nr := r.clone()
	for _, a := range set {
		ci, ok := t.def.colIdx[strings.ToLower(a.col)]
		if !ok {
			panic(pathEnd{kind: "unsupported", msg: "SQL: unknown column " + a.col})
		}
		nv := coerceToCol(ctx.eval(a.e), kindOfType(t.def.cols[ci].typ))
		nr.cols[ci] = sqlIte(cond, nv, r.cols[ci])
	}
	return nr
}

func (e *Exec) execUpdate(st *DBState, u *UpdateStmt, params map[string]SQLVal) execResult {
	t := e.tableOf(st, u.table)
	n := mkBV(64, 0)
	for si, r := range t.rows {
		ctx := &evalCtx{e: e, st: st, params: params, row: rowAsRel(t, r, si)}
		m := r.present
		if u.where != nil {
			m = tAnd(m, ctx.eval(u.where).truth())
		}
		if m.IsConst() && !m.B {
			continue
		}
		t.rows[si] = e.applySet(t, r, si, u.set, m, st, params)
		n = tBVBin("bvadd", n, boolToCount(m))
	}
	return execResult{rowsAffected: n}
}

func (e *Exec) execDelete(st *DBState, d *DeleteStmt, params map[string]SQLVal) execResult {
	t := e.tableOf(st, d.table)
	n := mkBV(64, 0)
	var delConds []*Term
	for si, r := range t.rows {
		ctx := &evalCtx{e: e, st: st, params: params, row: rowAsRel(t, r, si)}
		m := r.present
		if d.where != nil {
			m = tAnd(m, ctx.eval(d.where).truth())
		}
		delConds = append(delConds, m)
		n = tBVBin("bvadd", n, boolToCount(m))
	}
	e.deleteRows(st, t, delConds)
	return execResult{rowsAffected: n}
}

// deleteRows removes rows (symbolically) and cascades through foreign keys.
func (e *Exec) deleteRows(st *DBState, t *Table, del []*Term) {
	any := false
	for _, d := range del {
		if !(d.IsConst() && !d.B) {
			any = true
		}
	}
	if !any {
		return
	}
	idIdx, hasID := t.def.colIdx["id"]
	// cascade first (children reference the pre-delete ids)
	if hasID {
		for _, cn := range e.schema().order {
			ct := st.tables[cn]
			if ct == nil {
				continue
			}
			for ci, cd := range ct.def.cols {
				if strings.ToLower(cd.refTable) != t.def.name || !cd.cascade {
					continue
				}
				cdel := make([]*Term, len(ct.rows))
				for k, cr := range ct.rows {
					hit := tFalse
					for si, r := range t.rows {
						if del[si].IsConst() && !del[si].B {
							continue
						}
						eq := sqlCompare("=", cr.cols[ci], r.cols[idIdx]).truth()
						hit = tOr(hit, tAnd(del[si], eq))
					}
					cdel[k] = tAnd(cr.present, hit)
				}
				e.deleteRows(st, ct, cdel)
			}
		}
	}
	for si, r := range t.rows {
		if del[si].IsConst() && !del[si].B {
			continue
		}
		nr := r.clone()
		nr.present = tAnd(r.present, tNot(del[si]))
		t.rows[si] = nr
	}
}

func (e *Exec) execInsert(st *DBState, in *InsertStmt, params map[string]SQLVal) execResult {
	t := e.tableOf(st, in.table)
	ctx := &evalCtx{e: e, st: st, params: params, row: &relRow{present: tTrue, cols: map[string]SQLVal{}}}
	// build the candidate row
	newCols := make([]SQLVal, len(t.def.cols))
	given := map[int]bool{}
	for i, cn := range in.cols {
		ci, ok := t.def.colIdx[strings.ToLower(cn)]
		if !ok {
			panic(pathEnd{kind: "unsupported", msg: "SQL: unknown column " + cn})
		}
		newCols[ci] = coerceToCol(ctx.eval(in.values[i]), kindOfType(t.def.cols[ci].typ))
		given[ci] = true
	}
	newID := int64(0)
	for ci, cd := range t.def.cols {
		if given[ci] {
			continue
		}
		k := kindOfType(cd.typ)
		switch {
		case cd.pk:
			t.nextID++
			newID = t.nextID
			newCols[ci] = sqlIntC(newID)
		case cd.def != nil:
			newCols[ci] = coerceToCol(ctx.eval(cd.def), k)
		default:
			newCols[ci] = nullOfKind(k)
		}
	}
	// NOT NULL constraints
	notNullViol := tFalse
	for ci, cd := range t.def.cols {
		if cd.notNull {
			notNullViol = tOr(notNullViol, newCols[ci].Null)
		}
	}
	if e.branch(notNullViol) {
		return execResult{err: "NOT NULL constraint failed: " + t.def.name}
	}
	// uniqueness conflicts
	conflict := make([]*Term, len(t.rows))
	anyConflict := tFalse
	for si, r := range t.rows {
		c := tFalse
		for _, u := range t.def.unique {
			all := tTrue
			for _, cn := range u {
				ci := t.def.colIdx[strings.ToLower(cn)]
				all = tAnd(all, sqlCompare("=", r.cols[ci], newCols[ci]).truth())
			}
			c = tOr(c, all)
		}
		conflict[si] = tAnd(r.present, c)
		anyConflict = tOr(anyConflict, conflict[si])
	}
	if in.conflict == nil {
		if e.branch(anyConflict) {
			return execResult{err: "UNIQUE constraint failed: " + t.def.name}
		}
	}
	// foreign keys (PRAGMA foreign_keys=1 is in rosmar's DSN): the parent row must exist
	fkViol := tFalse
	for ci, cd := range t.def.cols {
		if cd.refTable == "" {
			continue
		}
		pt := st.tables[strings.ToLower(cd.refTable)]
		if pt == nil {
			continue
		}
		pid, ok := pt.def.colIdx["id"]
		if !ok {
			continue
		}
		found := tFalse
		for _, pr := range pt.rows {
			found = tOr(found, tAnd(pr.present, sqlCompare("=", pr.cols[pid], newCols[ci]).truth()))
		}
		fkViol = tOr(fkViol, tAnd(tNot(newCols[ci].Null), tNot(found)))
	}
	if e.branch(tAnd(tNot(anyConflict), fkViol)) {
		return execResult{err: "FOREIGN KEY constraint failed"}
	}
	n := mkBV(64, 0)
	// free slot selection
	firstFree := make([]*Term, len(t.rows))
	prevAllUsed := tTrue
	someFree := tFalse
	for si, r := range t.rows {
		firstFree[si] = tAnd(prevAllUsed, tNot(r.present))
		prevAllUsed = tAnd(prevAllUsed, r.present)
		someFree = tOr(someFree, firstFree[si])
	}
	doInsert := tNot(anyConflict)
	if !(doInsert.IsConst() && !doInsert.B) {
		// slot exhaustion = bound exceeded (fail closed)
		if e.branch(tAnd(doInsert, tNot(someFree))) {
			panic(pathEnd{kind: "bound", msg: "no free slot in table " + t.def.name})
		}
	}
	for si, r := range t.rows {
		nr := r
		if in.conflict != nil {
			// ON CONFLICT DO UPDATE: "excluded" not used by rosmar; SET refers to params and old row
			rctx := &evalCtx{e: e, st: st, params: params, row: rowAsRel(t, r, si)}
			upd := conflict[si]
			if in.conflict.where != nil {
				upd = tAnd(upd, rctx.eval(in.conflict.where).truth())
			}
			if !(upd.IsConst() && !upd.B) {
				nr = e.applySet(t, r, si, in.conflict.set, upd, st, params)
				n = tBVBin("bvadd", n, boolToCount(upd))
			}
		}
		ins := tAnd(doInsert, firstFree[si])
		if !(ins.IsConst() && !ins.B) {
			nr2 := nr.clone()
			nr2.present = tOr(nr.present, ins)
			for ci := range nr2.cols {
				nr2.cols[ci] = sqlIte(ins, newCols[ci], nr.cols[ci])
			}
			nr = nr2
			n = tBVBin("bvadd", n, boolToCount(ins))
		}
		t.rows[si] = nr
	}
	return execResult{rowsAffected: n, lastInsertID: newID}
}

func (e *Exec) schema() *Schema {
	if s, ok := e.world["schema"].(*Schema); ok {
		return s
	}
	sc, err := parseSchema(e.L.schema)
	if err != nil {
		panic(pathEnd{kind: "unsupported", msg: "schema.sql: " + err.Error()})
	}
	e.world["schema"] = sc
	return sc
}

var stmtCache = map[string][]interface{}{}
var stmtCacheMu = make(chan struct{}, 1)

func parseCached(sql string) ([]interface{}, error) {
	stmtCacheMu <- struct{}{}
	defer func() { <-stmtCacheMu }()
	if s, ok := stmtCache[sql]; ok {
		return s, nil
	}
	s, err := parseSQL(sql)
	if err != nil {
		return nil, err
	}
	stmtCache[sql] = s
	return s, nil
}
