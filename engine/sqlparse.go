package main

// Parser for the SQL subset that occurs in rosmar. Anything outside the
// subset is an error (UNSUPPORTED-SQL -> the check fails closed).

import (
	"fmt"
	"strconv"
	"strings"
)

type tok struct {
	k string // "id","num","str","param","op","eof"
	s string
}

func sqlLex(src string) ([]tok, error) {
	var out []tok
	i := 0
	for i < len(src) {
		c := src[i]
		switch {
		case c == ' ' || c == '\t' || c == '\n' || c == '\r':
			i++
		case c == '-' && i+1 < len(src) && src[i+1] == '-' && !(i+2 < len(src) && src[i+2] == '>'):
			for i < len(src) && src[i] != '\n' {
				i++
			}
		case c == '/' && i+1 < len(src) && src[i+1] == '*':
			j := strings.Index(src[i+2:], "*/")
			if j < 0 {
				return nil, fmt.Errorf("unterminated comment")
			}
			i += j + 4
		case c == '\'':
			j := i + 1
			var b strings.Builder
			for j < len(src) {
				if src[j] == '\'' {
					if j+1 < len(src) && src[j+1] == '\'' {
						b.WriteByte('\'')
						j += 2
						continue
					}
					break
				}
				b.WriteByte(src[j])
				j++
			}
			out = append(out, tok{"str", b.String()})
			i = j + 1
		case c >= '0' && c <= '9':
			j := i
			for j < len(src) && src[j] >= '0' && src[j] <= '9' {
				j++
			}
			out = append(out, tok{"num", src[i:j]})
			i = j
		case c == '?':
			j := i + 1
			for j < len(src) && src[j] >= '0' && src[j] <= '9' {
				j++
			}
			out = append(out, tok{"param", src[i:j]})
			i = j
		case c == '$' || c == ':' || c == '@':
			j := i + 1
			for j < len(src) && isIdentChar(src[j]) {
				j++
			}
			out = append(out, tok{"param", src[i:j]})
			i = j
		case isIdentStart(c):
			j := i
			for j < len(src) && isIdentChar(src[j]) {
				j++
			}
			out = append(out, tok{"id", src[i:j]})
			i = j
		default:
			for _, op := range []string{"->>", "->", "||", "==", "!=", "<>", "<=", ">="} {
				if strings.HasPrefix(src[i:], op) {
					out = append(out, tok{"op", op})
					i += len(op)
					goto next
				}
			}
			if strings.ContainsRune("(),;=<>*.+-", rune(c)) {
				out = append(out, tok{"op", string(c)})
				i++
			} else {
				return nil, fmt.Errorf("unexpected character %q", c)
			}
		next:
		}
	}
	out = append(out, tok{"eof", ""})
	return out, nil
}

func isIdentStart(c byte) bool {
	return c >= 'a' && c <= 'z' || c >= 'A' && c <= 'Z' || c == '_'
}
func isIdentChar(c byte) bool { return isIdentStart(c) || c >= '0' && c <= '9' }

// ---------- AST ----------

type Expr interface{}

type ELit struct {
	kind string // "int","str","null"
	i    int64
	s    string
}
type EParam struct{ name string } // "?", "?3", "$NAME"
type ECol struct{ table, name string }
type EBin struct {
	op   string
	l, r Expr
}
type EUn struct {
	op string // "not","isnull","notnull"
	x  Expr
}
type EFunc struct {
	name string
	args []Expr
}
type EIn struct {
	x   Expr
	sel *SelectStmt
}

type ResultCol struct {
	e     Expr
	alias string
	star  bool
}

type JoinClause struct {
	kind  string // "inner","right","left"
	table string
	on    Expr
}

type OrderTerm struct {
	e    Expr
	desc bool
}

type SelectStmt struct {
	withName string
	with     *SelectStmt
	cols     []ResultCol
	from     string
	join     *JoinClause
	where    Expr
	orderBy  []OrderTerm
	limit    Expr
}

type Assign struct {
	col string
	e   Expr
}

type InsertStmt struct {
	table    string
	cols     []string
	values   []Expr
	conflict *ConflictClause
}
type ConflictClause struct {
	cols  []string
	set   []Assign
	where Expr
}
type UpdateStmt struct {
	table string
	set   []Assign
	where Expr
}
type DeleteStmt struct {
	table string
	where Expr
}
type PragmaStmt struct {
	name string
	set  Expr
}
type ColDef struct {
	name     string
	typ      string // "integer","text","blob"
	notNull  bool
	def      Expr
	pk       bool
	autoinc  bool
	refTable string
	refCol   string
	cascade  bool
	collate  string
}
type CreateTableStmt struct {
	name   string
	cols   []*ColDef
	unique [][]string
}
type CreateIndexStmt struct{ name string }
type UnknownStmt struct{ text string }

type sqlParser struct {
	toks []tok
	p    int
	nq   int // sequential '?' counter
}

func (p *sqlParser) peek() tok { return p.toks[p.p] }
func (p *sqlParser) next() tok  { t := p.toks[p.p]; p.p++; return t }
func (p *sqlParser) isKw(kw string) bool {
	t := p.peek()
	return t.k == "id" && strings.EqualFold(t.s, kw)
}
func (p *sqlParser) isKw2(a, b string) bool {
	return p.isKw(a) && p.p+1 < len(p.toks) && p.toks[p.p+1].k == "id" && strings.EqualFold(p.toks[p.p+1].s, b)
}
func (p *sqlParser) acceptKw(kw string) bool {
	if p.isKw(kw) {
		p.p++
		return true
	}
	return false
}
func (p *sqlParser) expectKw(kw string) {
	if !p.acceptKw(kw) {
		panic(fmt.Errorf("expected %s, got %q", kw, p.peek().s))
	}
}
func (p *sqlParser) isOp(op string) bool { t := p.peek(); return t.k == "op" && t.s == op }
func (p *sqlParser) acceptOp(op string) bool {
	if p.isOp(op) {
		p.p++
		return true
	}
	return false
}
func (p *sqlParser) expectOp(op string) {
	if !p.acceptOp(op) {
		panic(fmt.Errorf("expected %q, got %q", op, p.peek().s))
	}
}
func (p *sqlParser) ident() string {
	t := p.next()
	if t.k != "id" {
		panic(fmt.Errorf("expected identifier, got %q", t.s))
	}
	return t.s
}

// parseSQL parses a script of one or more statements.
func parseSQL(src string) (stmts []interface{}, err error) {
	toks, err := sqlLex(src)
	if err != nil {
		return nil, err
	}
	p := &sqlParser{toks: toks}
	defer func() {
		if r := recover(); r != nil {
			if e, ok := r.(error); ok {
				err = fmt.Errorf("SQL parse: %v (in %.80q)", e, src)
				return
			}
			panic(r)
		}
	}()
	for p.peek().k != "eof" {
		if p.acceptOp(";") {
			continue
		}
		stmts = append(stmts, p.statement())
	}
	return stmts, nil
}

func (p *sqlParser) statement() interface{} {
	switch {
	case p.isKw("WITH") || p.isKw("SELECT"):
		return p.selectStmt()
	case p.isKw("INSERT"):
		return p.insertStmt()
	case p.isKw("UPDATE"):
		return p.updateStmt()
	case p.isKw("DELETE"):
		return p.deleteStmt()
	case p.isKw("PRAGMA"):
		p.next()
		ps := &PragmaStmt{name: p.ident()}
		if p.acceptOp("=") {
			ps.set = p.expr()
		}
		return ps
	case p.isKw("CREATE"):
		return p.createStmt()
	}
	panic(fmt.Errorf("unsupported statement starting with %q", p.peek().s))
}

func (p *sqlParser) selectStmt() *SelectStmt {
	s := &SelectStmt{}
	if p.acceptKw("WITH") {
		s.withName = p.ident()
		p.expectKw("AS")
		p.expectOp("(")
		s.with = p.selectStmt()
		p.expectOp(")")
	}
	p.expectKw("SELECT")
	for {
		if p.acceptOp("*") {
			s.cols = append(s.cols, ResultCol{star: true})
		} else {
			rc := ResultCol{e: p.expr()}
			if p.acceptKw("AS") {
				rc.alias = p.ident()
			}
			s.cols = append(s.cols, rc)
		}
		if !p.acceptOp(",") {
			break
		}
	}
	if p.acceptKw("FROM") {
		s.from = p.ident()
		kind := ""
		switch {
		case p.acceptKw("JOIN"):
			kind = "inner"
		case p.isKw2("INNER", "JOIN"):
			p.p += 2
			kind = "inner"
		case p.isKw2("RIGHT", "JOIN"):
			p.p += 2
			kind = "right"
		case p.isKw2("LEFT", "JOIN"):
			p.p += 2
			kind = "left"
		}
		if kind != "" {
			j := &JoinClause{kind: kind, table: p.ident()}
			p.expectKw("ON")
			j.on = p.expr()
			s.join = j
		}
	}
	if p.acceptKw("WHERE") {
		s.where = p.expr()
	}
	if p.isKw2("ORDER", "BY") {
		p.p += 2
		for {
			ot := OrderTerm{e: p.expr()}
			if p.acceptKw("DESC") {
				ot.desc = true
			} else {
				p.acceptKw("ASC")
			}
			s.orderBy = append(s.orderBy, ot)
			if !p.acceptOp(",") {
				break
			}
		}
	}
	if p.acceptKw("LIMIT") {
		s.limit = p.expr()
	}
	return s
}

func (p *sqlParser) identList() []string {
	var out []string
	p.expectOp("(")
	for {
		out = append(out, p.ident())
		if !p.acceptOp(",") {
			break
		}
	}
	p.expectOp(")")
	return out
}

func (p *sqlParser) assignments() []Assign {
	var out []Assign
	for {
		c := p.ident()
		p.expectOp("=")
		out = append(out, Assign{col: c, e: p.expr()})
		if !p.acceptOp(",") {
			break
		}
	}
	return out
}

func (p *sqlParser) insertStmt() *InsertStmt {
	p.expectKw("INSERT")
	p.expectKw("INTO")
	s := &InsertStmt{table: p.ident()}
	s.cols = p.identList()
	p.expectKw("VALUES")
	p.expectOp("(")
	for {
		s.values = append(s.values, p.expr())
		if !p.acceptOp(",") {
			break
		}
	}
	p.expectOp(")")
	if p.acceptKw("ON") {
		p.expectKw("CONFLICT")
		c := &ConflictClause{}
		if p.isOp("(") {
			c.cols = p.identList()
		}
		p.expectKw("DO")
		p.expectKw("UPDATE")
		p.expectKw("SET")
		c.set = p.assignments()
		if p.acceptKw("WHERE") {
			c.where = p.expr()
		}
		s.conflict = c
	}
	return s
}

func (p *sqlParser) updateStmt() *UpdateStmt {
	p.expectKw("UPDATE")
	s := &UpdateStmt{table: p.ident()}
	p.expectKw("SET")
	s.set = p.assignments()
	if p.acceptKw("WHERE") {
		s.where = p.expr()
	}
	return s
}

func (p *sqlParser) deleteStmt() *DeleteStmt {
	p.expectKw("DELETE")
	p.expectKw("FROM")
	s := &DeleteStmt{table: p.ident()}
	if p.acceptKw("WHERE") {
		s.where = p.expr()
	}
	return s
}

func (p *sqlParser) createStmt() interface{} {
	p.expectKw("CREATE")
	if p.acceptKw("INDEX") || (p.isKw2("UNIQUE", "INDEX")) {
		// skip to end of statement
		name := ""
		for !p.isOp(";") && p.peek().k != "eof" {
			t := p.next()
			if name == "" && t.k == "id" && !strings.EqualFold(t.s, "INDEX") && !strings.EqualFold(t.s, "UNIQUE") {
				name = t.s
			}
		}
		return &CreateIndexStmt{name: name}
	}
	p.expectKw("TABLE")
	ct := &CreateTableStmt{name: p.ident()}
	p.expectOp("(")
	for {
		if p.acceptKw("UNIQUE") {
			ct.unique = append(ct.unique, p.identList())
		} else {
			ct.cols = append(ct.cols, p.colDef())
		}
		if !p.acceptOp(",") {
			break
		}
	}
	p.expectOp(")")
	return ct
}

func (p *sqlParser) colDef() *ColDef {
	c := &ColDef{name: p.ident()}
	c.typ = strings.ToLower(p.ident())
	for {
		switch {
		case p.isKw2("NOT", "NULL"):
			p.p += 2
			c.notNull = true
		case p.isKw2("PRIMARY", "KEY"):
			p.p += 2
			c.pk = true
		case p.acceptKw("AUTOINCREMENT"):
			c.autoinc = true
		case p.acceptKw("DEFAULT"):
			c.def = p.primary()
		case p.acceptKw("COLLATE"):
			c.collate = p.ident()
		case p.acceptKw("REFERENCES"):
			c.refTable = p.ident()
			p.expectOp("(")
			c.refCol = p.ident()
			p.expectOp(")")
			if p.acceptKw("ON") {
				p.expectKw("DELETE")
				p.expectKw("CASCADE")
				c.cascade = true
			}
		default:
			return c
		}
	}
}

// ---------- expressions (precedence climbing) ----------

func (p *sqlParser) expr() Expr { return p.orExpr() }

func (p *sqlParser) orExpr() Expr {
	l := p.andExpr()
	for p.acceptKw("OR") {
		l = &EBin{"or", l, p.andExpr()}
	}
	return l
}

func (p *sqlParser) andExpr() Expr {
	l := p.notExpr()
	for p.acceptKw("AND") {
		l = &EBin{"and", l, p.notExpr()}
	}
	return l
}

func (p *sqlParser) notExpr() Expr {
	if p.isKw("NOT") && !p.isKw2("NOT", "NULL") {
		p.next()
		return &EUn{"not", p.notExpr()}
	}
	return p.cmpExpr()
}

func (p *sqlParser) cmpExpr() Expr {
	l := p.relExpr()
	for {
		switch {
		case p.acceptOp("=") || p.acceptOp("=="):
			l = &EBin{"=", l, p.relExpr()}
		case p.acceptOp("!=") || p.acceptOp("<>"):
			l = &EBin{"!=", l, p.relExpr()}
		case p.isKw2("IS", "NULL"):
			p.p += 2
			l = &EUn{"isnull", l}
		case p.isKw("IS") && p.p+2 < len(p.toks) && strings.EqualFold(p.toks[p.p+1].s, "NOT") && strings.EqualFold(p.toks[p.p+2].s, "NULL"):
			p.p += 3
			l = &EUn{"notnull", l}
		case p.isKw2("NOT", "NULL"):
			p.p += 2
			l = &EUn{"notnull", l}
		case p.acceptKw("NOTNULL"):
			l = &EUn{"notnull", l}
		case p.acceptKw("ISNULL"):
			l = &EUn{"isnull", l}
		case p.acceptKw("IN"):
			p.expectOp("(")
			sel := p.selectStmt()
			p.expectOp(")")
			l = &EIn{x: l, sel: sel}
		default:
			return l
		}
	}
}

func (p *sqlParser) relExpr() Expr {
	l := p.addExpr()
	for {
		switch {
		case p.acceptOp("<="):
			l = &EBin{"<=", l, p.addExpr()}
		case p.acceptOp(">="):
			l = &EBin{">=", l, p.addExpr()}
		case p.acceptOp("<"):
			l = &EBin{"<", l, p.addExpr()}
		case p.acceptOp(">"):
			l = &EBin{">", l, p.addExpr()}
		default:
			return l
		}
	}
}

func (p *sqlParser) addExpr() Expr {
	l := p.concatExpr()
	for {
		switch {
		case p.acceptOp("+"):
			l = &EBin{"+", l, p.concatExpr()}
		case p.acceptOp("-"):
			l = &EBin{"-", l, p.concatExpr()}
		default:
			return l
		}
	}
}

func (p *sqlParser) concatExpr() Expr {
	l := p.primary()
	for {
		switch {
		case p.acceptOp("||"):
			l = &EBin{"||", l, p.primary()}
		case p.acceptOp("->>"):
			l = &EBin{"->>", l, p.primary()}
		case p.acceptOp("->"):
			l = &EBin{"->", l, p.primary()}
		default:
			return l
		}
	}
}

func (p *sqlParser) primary() Expr {
	t := p.next()
	switch t.k {
	case "num":
		i, _ := strconv.ParseInt(t.s, 10, 64)
		return &ELit{kind: "int", i: i}
	case "str":
		return &ELit{kind: "str", s: t.s}
	case "param":
		if t.s == "?" {
			p.nq++
			return &EParam{name: fmt.Sprintf("?%d", p.nq)}
		}
		return &EParam{name: t.s}
	case "op":
		if t.s == "(" {
			e := p.expr()
			p.expectOp(")")
			return e
		}
		if t.s == "-" {
			x := p.primary()
			if l, ok := x.(*ELit); ok && l.kind == "int" {
				return &ELit{kind: "int", i: -l.i}
			}
			return &EBin{"-", &ELit{kind: "int", i: 0}, x}
		}
	case "id":
		switch strings.ToLower(t.s) {
		case "null":
			return &ELit{kind: "null"}
		case "true":
			return &ELit{kind: "int", i: 1}
		case "false":
			return &ELit{kind: "int", i: 0}
		}
		if strings.ToLower(t.s) == "case" {
			// searched CASE only
			f := &EFunc{name: "case"}
			for p.acceptKw("WHEN") {
				f.args = append(f.args, p.expr())
				p.expectKw("THEN")
				f.args = append(f.args, p.expr())
			}
			if len(f.args) == 0 {
				panic(fmt.Errorf("CASE with an operand is not supported"))
			}
			if p.acceptKw("ELSE") {
				f.args = append(f.args, p.expr())
			} else {
				f.args = append(f.args, &ELit{kind: "null"})
			}
			p.expectKw("END")
			return f
		}
		if p.acceptOp("(") {
			f := &EFunc{name: strings.ToLower(t.s)}
			if !p.isOp(")") {
				for {
					f.args = append(f.args, p.expr())
					if !p.acceptOp(",") {
						break
					}
				}
			}
			p.expectOp(")")
			return f
		}
		if p.acceptOp(".") {
			return &ECol{table: t.s, name: p.ident()}
		}
		return &ECol{name: t.s}
	}
	panic(fmt.Errorf("unexpected token %q", t.s))
}
