package main

import (
	"fmt"
	"strings"
)

// concretizeBlobs turns the model's abstract Blob elements into concrete byte
// strings: images of Strings keep their string; others get a string with the
// model's length, first and last byte and a filler that keeps distinct
// abstract values distinct.
func (e *Exec) concretizeBlobs(m map[string]string) {
	var blobs []inputRec
	for _, in := range e.inputs {
		if in.T.S.K == KBlob {
			blobs = append(blobs, in)
		}
	}
	if len(blobs) == 0 {
		return
	}
	var qs []*Term
	for _, in := range blobs {
		x := in.T
		str := mkOp("sOfB", SStr, x)
		qs = append(qs, x, mkOp("=", SBool, x, mkOp("bOfS", SBlob, str)), str,
			mkOp("blen", SInt, x), mkOp("bfirst", SBV(8), x), mkOp("blast", SBV(8), x))
	}
	vals := e.solver.GetValues(qs)
	byAbs := map[string]string{}
	used := map[string]string{}
	for i, in := range blobs {
		abs := strings.TrimSpace(vals[6*i])
		if c, ok := byAbs[abs]; ok {
			m[in.Name] = "s:" + c
			continue
		}
		var conc string
		if strings.TrimSpace(vals[6*i+1]) == "true" {
			conc = parseSMTString(vals[6*i+2])
		} else {
			n := parseSMTInt(vals[6*i+3])
			first := byte(parseSMTBV(vals[6*i+4]))
			last := byte(parseSMTBV(vals[6*i+5]))
			conc = synthBlob(int(n), first, last, len(byAbs), used)
		}
		if prev, clash := used[conc]; clash && prev != abs {
			m["_concretization_failed"] = "b:true"
		}
		used[conc] = abs
		byAbs[abs] = conc
		m[in.Name] = "s:" + conc
	}
}

func synthBlob(n int, first, last byte, id int, used map[string]string) string {
	if n <= 0 {
		n = 1
	}
	if n > 64*1024*1024 {
		n = 64 * 1024 * 1024
	}
	b := make([]byte, n)
	for i := range b {
		b[i] = 'x'
	}
	b[0] = first
	b[n-1] = last
	if n == 1 && first != last {
		b[0] = first
	}
	tag := fmt.Sprintf("%d", id)
	if n >= len(tag)+2 {
		copy(b[1:], tag)
	} else if n == 1 {
		// try to stay distinct among single-byte blobs
		for k := 0; k < 256; k++ {
			if _, ok := used[string(b)]; !ok {
				break
			}
			b[0] = byte('a' + (id+k)%26)
		}
	} else {
		for k := 0; k < 256; k++ {
			if _, ok := used[string(b)]; !ok {
				break
			}
			if n > 2 {
				b[1] = byte('a' + (id+k)%26)
			} else {
				break
			}
		}
	}
	return string(b)
}
