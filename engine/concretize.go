package main

import (
	"encoding/json"
	"fmt"
	"sort"
	"strings"
)

// concretizeBlobs turns the model's abstract Blob elements into concrete byte
// strings for native replay. Images of Strings keep their string; xattr blobs
// become real JSON objects built from the model's xhas/xget over the
// universe; values the model treats as JSON become JSON string literals;
// everything else gets a string with the model's length / first / last byte
// and a filler that keeps distinct abstract values distinct.
func (e *Exec) concretizeBlobs(m map[string]string) {
	var blobs []inputRec
	for _, in := range e.inputs {
		if in.T.S.K == KBlob {
			// columns of absent rows are irrelevant
			if i := strings.Index(in.Name, ".doc"); i >= 0 {
				j := strings.Index(in.Name[i+1:], ".")
				if j >= 0 && m[in.Name[:i+1+j]+".present"] == "b:false" {
					m[in.Name] = "s:"
					continue
				}
			}
			blobs = append(blobs, in)
		}
	}
	if len(blobs) == 0 {
		return
	}
	type facts struct {
		abs     string
		isStr   bool
		str     string
		n       int
		first   byte
		last    byte
		isJSON  bool
		isObj   bool
		isUint  bool
		uval    uint64
		isJObj  bool
	}
	factsOf := func(ts []*Term) []facts {
		var qs []*Term
		for _, x := range ts {
			str := mkOp("sOfB", SStr, x)
			qs = append(qs, x, mkOp("=", SBool, x, mkOp("bOfS", SBlob, str)), str,
				mkOp("blen", SInt, x), mkOp("bfirst", SBV(8), x), mkOp("blast", SBV(8), x), jsonValid(x), xisObj(x),
				mkUF("jsonUint", SBool, x), mkUF("juint", SBV(64), x), oisObj(x))
		}
		vals := e.solver.GetValues(qs)
		out := make([]facts, len(ts))
		for i := range ts {
			v := vals[11*i:]
			out[i] = facts{abs: strings.TrimSpace(v[0]), isStr: strings.TrimSpace(v[1]) == "true", str: parseSMTString(v[2]),
				n: int(parseSMTInt(v[3])), first: byte(parseSMTBV(v[4])), last: byte(parseSMTBV(v[5])),
				isJSON: strings.TrimSpace(v[6]) == "true", isObj: strings.TrimSpace(v[7]) == "true",
				isUint: strings.TrimSpace(v[8]) == "true", uval: parseSMTBV(v[9]),
				isJObj: strings.TrimSpace(v[10]) == "true"}
		}
		return out
	}
	var terms []*Term
	for _, in := range blobs {
		terms = append(terms, in.T)
	}
	fs := factsOf(terms)
	assigned := map[string]string{}
	used := map[string]string{}
	fail := false
	assign := func(abs, conc string) {
		if prev, ok := used[conc]; ok && prev != abs {
			fail = true
		}
		used[conc] = abs
		assigned[abs] = conc
	}
	leaf := func(f facts) string {
		if c, ok := assigned[f.abs]; ok {
			return c
		}
		var c string
		if f.isStr {
			c = f.str
		} else {
			c = fmt.Sprintf("%q", fmt.Sprintf("v%d", len(assigned)))
		}
		assign(f.abs, c)
		return c
	}
	U := e.universe()
	var unames []string
	if len(U) > 0 {
		for _, v := range e.solver.GetValues(U) {
			unames = append(unames, parseSMTString(v))
		}
	}
	keyLike := map[string]bool{}
	for i, in := range blobs {
		if strings.HasSuffix(in.Name, ".key") || strings.HasPrefix(in.Name, "in_key") {
			keyLike[fs[i].abs] = true
		}
	}
	// pass 0: document keys are only ever compared: every abstract key gets its own plain string
	for _, f := range fs {
		if !keyLike[f.abs] {
			continue
		}
		if _, ok := assigned[f.abs]; ok {
			continue
		}
		if f.isStr && f.str != "" {
			if _, clash := used[f.str]; !clash {
				assign(f.abs, f.str)
				continue
			}
		}
		c := fmt.Sprintf("key%d", len(assigned))
		for k := 0; ; k++ {
			if _, clash := used[c]; !clash {
				break
			}
			c = fmt.Sprintf("key%d_%d", len(assigned), k)
		}
		assign(f.abs, c)
	}
	// pass 1: string images
	for _, f := range fs {
		if _, ok := assigned[f.abs]; !ok && f.isStr {
			assign(f.abs, f.str)
		}
	}
	// pass 2: xattr objects
	for i, in := range blobs {
		f := fs[i]
		if _, ok := assigned[f.abs]; ok {
			continue
		}
		if in.Kind != "xattrs" {
			continue
		}
		var hq, gq []*Term
		for _, u := range U {
			hq = append(hq, xhas(in.T, u))
			gq = append(gq, xget(in.T, u))
		}
		hv := e.solver.GetValues(hq)
		gf := factsOf(gq)
		type kv struct{ k, v string }
		var members []kv
		for k := range U {
			if strings.TrimSpace(hv[k]) == "true" {
				members = append(members, kv{unames[k], leaf(gf[k])})
			}
		}
		sort.Slice(members, func(a, b int) bool { return members[a].k < members[b].k })
		var sb strings.Builder
		sb.WriteByte('{')
		for j, mbr := range members {
			if j > 0 {
				sb.WriteByte(',')
			}
			fmt.Fprintf(&sb, "%q:%s", mbr.k, mbr.v)
		}
		sb.WriteByte('}')
		assign(f.abs, sb.String())
	}
	// pass 2b: JSON object documents over the property universe (C18 model), depth <= 2
	P := e.props()
	if len(P) > 0 {
		var pnames []string
		for _, v := range e.solver.GetValues(P) {
			pnames = append(pnames, parseSMTString(v))
		}
		var build func(t *Term, f facts, depth int) string
		build = func(t *Term, f facts, depth int) string {
			if c, ok := assigned[f.abs]; ok {
				return c
			}
			if !f.isJObj || depth > 2 {
				return leaf(f)
			}
			var hq, gq []*Term
			for _, p := range P {
				hq = append(hq, ohas(t, p))
				gq = append(gq, oget(t, p))
			}
			hv := e.solver.GetValues(hq)
			gf := factsOf(gq)
			type kv struct{ k, v string }
			var members []kv
			for k := range P {
				if strings.TrimSpace(hv[k]) == "true" {
					members = append(members, kv{pnames[k], build(gq[k], gf[k], depth+1)})
				}
			}
			sort.Slice(members, func(a, b int) bool { return members[a].k < members[b].k })
			var sb strings.Builder
			sb.WriteByte('{')
			for j, mbr := range members {
				if j > 0 {
					sb.WriteByte(',')
				}
				fmt.Fprintf(&sb, "%q:%s", mbr.k, mbr.v)
			}
			sb.WriteByte('}')
			assign(f.abs, sb.String())
			return sb.String()
		}
		for i, in := range blobs {
			f := fs[i]
			if _, ok := assigned[f.abs]; ok || !f.isJObj || !f.isJSON || in.Kind == "xattrs" {
				continue
			}
			build(in.T, f, 1)
		}
	}
	// pass 3: JSON-valued and opaque blobs
	for _, f := range fs {
		if _, ok := assigned[f.abs]; ok {
			continue
		}
		if f.isUint {
			assign(f.abs, fmt.Sprintf("%d", f.uval))
			continue
		}
		if f.isJSON && f.n > 64 && !(f.first == '{' && f.last == '}') {
			// a long value the path treats as valid JSON: a string literal of exactly that length
			b := []byte(synthBlob(f.n, '"', '"', len(assigned), used))
			assign(f.abs, string(b))
			continue
		}
		if f.n > 64 || (f.first == '{' && f.last == '}' && f.n >= 2) {
			assign(f.abs, synthBlob(f.n, f.first, f.last, len(assigned), used))
			continue
		}
		if f.isJSON {
			leaf(f)
			continue
		}
		// the model says this text is NOT valid JSON: make sure the synthesised bytes are not
		c := synthBlob(f.n, f.first, f.last, len(assigned), used)
		if json.Valid([]byte(c)) {
			c = "!" + c
		}
		assign(f.abs, c)
	}
	for i, in := range blobs {
		m[in.Name] = "s:" + assigned[fs[i].abs]
	}
	// two abstract values mapped to one string is only a problem if the path depends on them
	// being different; the native replay is the judge of that (no early rejection)
	_ = fail
}

func synthBlob(n int, first, last byte, id int, used map[string]string) string {
	if n <= 0 {
		n = 1
	}
	if n > 48*1024*1024 {
		n = 48 * 1024 * 1024
	}
	b := make([]byte, n)
	for i := range b {
		b[i] = 'x'
	}
	b[0] = first
	b[n-1] = last
	tag := fmt.Sprintf("%d", id)
	if n >= len(tag)+2 {
		copy(b[1:], tag)
		return string(b)
	}
	if n == 1 {
		if first == 0 {
			b[0] = byte('a' + id%26)
		}
		for k := 0; k < 200; k++ {
			if _, ok := used[string(b)]; !ok {
				break
			}
			b[0] = byte('a' + (id+k)%26)
		}
		return string(b)
	}
	return string(b)
}
