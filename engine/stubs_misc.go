package main

import (
	"fmt"
	"go/token"
	"go/types"
	"strings"

	"golang.org/x/tools/go/ssa"
)

const rosmarPath = "github.com/couchbaselabs/rosmar"

var fmtErrorType types.Type = types.NewNamed(types.NewTypeName(token.NoPos, nil, "fmtError", nil), types.NewStruct(nil, nil), nil)

type fmtErr struct {
	msg     *Term
	wrapped []Val // operands of %w
	tag     string
}

func (e *Exec) newError(tag string, msg string, wrapped ...Val) *IfaceV {
	e.lastErr = tag + ": " + msg
	return &IfaceV{T: fmtErrorType, V: &NativeV{Kind: "fmtError", Data: &fmtErr{msg: mkStr(msg), wrapped: wrapped, tag: tag}}}
}

func nativeTypeMethods(t types.Type, name string) (Val, bool) {
	if t == fmtErrorType {
		switch name {
		case "Error":
			return &FuncV{nativeFn: func(e *Exec, th *Thread, args []Val) Val {
				return args[0].(*NativeV).Data.(*fmtErr).msg
			}}, true
		case "Unwrap":
			return &FuncV{nativeFn: func(e *Exec, th *Thread, args []Val) Val {
				fe := args[0].(*NativeV).Data.(*fmtErr)
				if len(fe.wrapped) > 0 {
					return fe.wrapped[0]
				}
				return nilIface
			}}, true
		}
	}
	if nativeTypeMethodsExtra != nil {
		return nativeTypeMethodsExtra(t, name)
	}
	return nil, false
}

func (e *Exec) foreignGlobalInit(g *ssa.Global, et types.Type) Val {
	if g.Pkg != nil && g.Pkg.Pkg.Path() == rosmarPath {
		if g.Name() == "kSchema" {
			return mkStr(e.L.schema) // go:embed variable: initialised by the compiler, not by init
		}
		return nil
	}
	if _, ok := et.Underlying().(*types.Interface); ok {
		return &IfaceV{T: sentinelType, V: &NativeV{Kind: "sentinel", Data: g.String()}}
	}
	// constant initialisers of foreign globals (e.g. sqlite3.ErrBusy = ErrNo(5)):
	// read them from the package initialiser's SSA instead of running it.
	if g.Pkg != nil {
		if initFn := g.Pkg.Func("init"); initFn != nil {
			for _, b := range initFn.Blocks {
				for _, in := range b.Instrs {
					if st, ok := in.(*ssa.Store); ok && st.Addr == ssa.Value(g) {
						if k, ok := st.Val.(*ssa.Const); ok {
							return e.constVal(k)
						}
					}
				}
			}
		}
	}
	return nil
}

// toGo converts a concrete value for native formatting.
func toGo(v Val) (interface{}, bool) {
	switch x := v.(type) {
	case *Term:
		if !x.IsConst() {
			return nil, false
		}
		switch x.S.K {
		case KBool:
			return x.B, true
		case KInt:
			return x.I.Int64(), true
		case KStr:
			return x.Str, true
		case KBV:
			return x.U, true
		}
	case *IfaceV:
		if x.T == nil {
			return nil, true
		}
		return toGo(x.V)
	case *BytesV:
		if x.S.IsConst() {
			return []byte(x.S.Str), true
		}
	}
	return nil, false
}

func variadicArgs(v Val) []Val {
	if v == nil {
		return nil
	}
	s, ok := v.(*SliceV)
	if !ok {
		return nil
	}
	return s.elems()
}

// injUF creates an injective uninterpreted function application: for each
// argument an inverse function is asserted on this application.
func (e *Exec) injUF(name string, rs Sort, args ...*Term) *Term {
	app := mkUF(name, rs, args...)
	key := app.String()
	if e.axiomsDone[key] {
		return app
	}
	e.axiomsDone[key] = true
	for i, a := range args {
		inv := mkUF(fmt.Sprintf("%s_inv%d", name, i), a.S, app)
		e.assume(tEq(inv, a))
	}
	return app
}

func (e *Exec) sprintf(format string, args []Val) *Term {
	var goArgs []interface{}
	allConc := true
	for _, a := range args {
		g, ok := toGo(a)
		if !ok {
			allConc = false
			break
		}
		goArgs = append(goArgs, g)
	}
	if allConc {
		return mkStr(fmt.Sprintf(format, goArgs...))
	}
	// symbolic: injective uninterpreted function of the scalar arguments
	var ts []*Term
	for _, a := range args {
		switch x := a.(type) {
		case *Term:
			ts = append(ts, x)
		case *IfaceV:
			if t, ok := x.V.(*Term); ok {
				ts = append(ts, t)
			} else if b, ok := x.V.(*BytesV); ok {
				ts = append(ts, b.S)
			}
		case *BytesV:
			ts = append(ts, x.S)
		}
	}
	name := "sprintf_" + sanitizeName(format)
	if len(name) > 40 {
		name = name[:40] + fmt.Sprintf("_%x", hashStr(format))
	}
	return e.injUF(name, SStr, ts...)
}

func hashStr(s string) uint32 {
	var h uint32 = 2166136261
	for i := 0; i < len(s); i++ {
		h ^= uint32(s[i])
		h *= 16777619
	}
	return h
}

func noop(e *Exec, th *Thread, c *CallCtx, a []Val) StubRes { return ret(nil) }

func init() {
	for _, n := range []string{"info", "debug", "trace", "warn", "logError", "traceEnter", "traceExit"} {
		stubs[rosmarPath+"."+n] = noop
	}
	stubs["log.Printf"] = noop
	stubs[rosmarPath+".readableStackTrace"] = func(e *Exec, th *Thread, c *CallCtx, a []Val) StubRes { return ret(mkStr("")) }

	stubs["fmt.Errorf"] = func(e *Exec, th *Thread, c *CallCtx, a []Val) StubRes {
		format, _ := toGo(a[0])
		fs, _ := format.(string)
		args := variadicArgs(a[1])
		fe := &fmtErr{}
		// find %w operands
		idx := 0
		for i := 0; i+1 < len(fs); i++ {
			if fs[i] == '%' {
				j := i + 1
				for j < len(fs) && strings.ContainsRune("+-# 0123456789.", rune(fs[j])) {
					j++
				}
				if j < len(fs) {
					if fs[j] == '%' {
						i = j
						continue
					}
					if fs[j] == 'w' && idx < len(args) {
						fe.wrapped = append(fe.wrapped, args[idx])
					}
					idx++
					i = j
				}
			}
		}
		fe.msg = mkStr("error: " + fs)
		fe.tag = fs
		return ret(&IfaceV{T: fmtErrorType, V: &NativeV{Kind: "fmtError", Data: fe}})
	}
	stubs["errors.New"] = func(e *Exec, th *Thread, c *CallCtx, a []Val) StubRes {
		s, _ := toGo(a[0])
		str, _ := s.(string)
		return ret(e.newError("errors.New", str))
	}
	stubs["fmt.Sprintf"] = func(e *Exec, th *Thread, c *CallCtx, a []Val) StubRes {
		format, ok := toGo(a[0])
		if !ok {
			panic(pathEnd{kind: "unsupported", msg: "Sprintf with symbolic format"})
		}
		return ret(e.sprintf(format.(string), variadicArgs(a[1])))
	}
	stubs["errors.Is"] = func(e *Exec, th *Thread, c *CallCtx, a []Val) StubRes {
		return ret(e.errorsIs(a[0], a[1], 0))
	}
	stubs["errors.As"] = func(e *Exec, th *Thread, c *CallCtx, a []Val) StubRes {
		target := a[1].(*IfaceV)
		tp := target.V.(*PtrV)
		tt := target.T.(*types.Pointer).Elem()
		return ret(mkBool(e.errorsAs(a[0], tp, tt, 0)))
	}

	// strings
	stubs["strings.ContainsAny"] = func(e *Exec, th *Thread, c *CallCtx, a []Val) StubRes {
		s := a[0].(*Term)
		chars := a[1].(*Term)
		if !chars.IsConst() {
			panic(pathEnd{kind: "unsupported", msg: "ContainsAny symbolic chars"})
		}
		var cs []*Term
		for i := 0; i < len(chars.Str); i++ {
			cs = append(cs, tStrContains(s, mkStr(chars.Str[i:i+1])))
		}
		return ret(tOr(cs...))
	}
	stubs["strings.Contains"] = func(e *Exec, th *Thread, c *CallCtx, a []Val) StubRes {
		return ret(tStrContains(a[0].(*Term), a[1].(*Term)))
	}
	stubs["strings.HasPrefix"] = func(e *Exec, th *Thread, c *CallCtx, a []Val) StubRes {
		return ret(tStrPrefixOf(a[1].(*Term), a[0].(*Term)))
	}
	stubs["strings.TrimPrefix"] = func(e *Exec, th *Thread, c *CallCtx, a []Val) StubRes {
		s, p := a[0].(*Term), a[1].(*Term)
		if s.IsConst() && p.IsConst() {
			return ret(mkStr(strings.TrimPrefix(s.Str, p.Str)))
		}
		panic(pathEnd{kind: "unsupported", msg: "TrimPrefix symbolic"})
	}
	stubs["strings.Replace"] = func(e *Exec, th *Thread, c *CallCtx, a []Val) StubRes {
		s, o, n := a[0].(*Term), a[1].(*Term), a[2].(*Term)
		if s.IsConst() && o.IsConst() && n.IsConst() {
			return ret(mkStr(strings.Replace(s.Str, o.Str, n.Str, e.concreteInt(a[3], "Replace n"))))
		}
		panic(pathEnd{kind: "unsupported", msg: "Replace symbolic"})
	}
	stubs["strings.Split"] = func(e *Exec, th *Thread, c *CallCtx, a []Val) StubRes {
		s, sep := a[0].(*Term), a[1].(*Term)
		if !sep.IsConst() || len(sep.Str) != 1 {
			panic(pathEnd{kind: "unsupported", msg: "Split symbolic sep"})
		}
		if s.IsConst() {
			var parts []Val
			for _, p := range strings.Split(s.Str, sep.Str) {
				parts = append(parts, mkStr(p))
			}
			return ret(e.newSlice(parts))
		}
		// structural split of a concatenation whose symbolic pieces provably hold no separator
		if s.Op == "str.++" {
			var pieces []*Term
			var flat func(t *Term)
			flat = func(t *Term) {
				if t.Op == "str.++" {
					for _, x := range t.Args {
						flat(x)
					}
				} else {
					pieces = append(pieces, t)
				}
			}
			flat(s)
			ok := true
			for _, pc := range pieces {
				if !pc.IsConst() && e.branch(tStrContains(pc, sep)) {
					ok = false
					break
				}
			}
			if ok {
				var parts []Val
				cur := mkStr("")
				for _, pc := range pieces {
					if !pc.IsConst() {
						cur = tStrConcat(cur, pc)
						continue
					}
					segs := strings.Split(pc.Str, sep.Str)
					for i, sg := range segs {
						cur = tStrConcat(cur, mkStr(sg))
						if i < len(segs)-1 {
							parts = append(parts, cur)
							cur = mkStr("")
						}
					}
				}
				parts = append(parts, cur)
				return ret(e.newSlice(parts))
			}
		}
		// symbolic: fork on the number of separators, up to splitBound components
		var parts []Val
		rest := s
		for k := 0; ; k++ {
			if !e.branch(tStrContains(rest, sep)) {
				parts = append(parts, rest)
				break
			}
			if k+1 >= splitBound {
				panic(pathEnd{kind: "bound", msg: "strings.Split component bound"})
			}
			idx := mkOp("str.indexof", SInt, rest, sep, mkInt(0))
			head := mkOp("str.substr", SStr, rest, mkInt(0), idx)
			tail := mkOp("str.substr", SStr, rest, tIntBin("+", idx, mkInt(1)), tStrLen(rest))
			parts = append(parts, head)
			rest = tail
		}
		return ret(e.newSlice(parts))
	}
	stubs["strconv.FormatUint"] = func(e *Exec, th *Thread, c *CallCtx, a []Val) StubRes {
		n := a[0].(*Term)
		if n.IsConst() {
			return ret(mkStr(fmt.Sprintf("%d", n.U)))
		}
		r := e.injUF("fmtU", SBlob, n)
		e.assume(tEq(mkUF("juint", SBV(64), r), n))
		e.assume(mkUF("jsonUint", SBool, r))
		e.assume(tNe(r, mkStr("")))
		return ret(r)
	}

	// rosmar helpers that are cut (formatting of opaque values)
	stubs[rosmarPath+".encodedCRC32c"] = func(e *Exec, th *Thread, c *CallCtx, a []Val) StubRes {
		b := a[0].(*BytesV)
		r := e.injUF("crc32c", SStr, toBlob(b.S))
		e.assume(tEq(tStrLen(r), mkInt(10))) // "0x%08x"
		return ret(r)
	}
	stubs[rosmarPath+".casAsString"] = func(e *Exec, th *Thread, c *CallCtx, a []Val) StubRes {
		r := e.injUF("casStr", SStr, a[0].(*Term))
		e.assume(tEq(tStrLen(r), mkInt(18))) // "0x" + 16 hex digits
		return ret(r)
	}
	stubs["runtime.GOMAXPROCS"] = func(e *Exec, th *Thread, c *CallCtx, a []Val) StubRes { return ret(mkInt(1)) }
}

var splitBound = 3

func (e *Exec) unwrapErr(iv *IfaceV) []Val {
	if iv == nil || iv.T == nil {
		return nil
	}
	if iv.T == fmtErrorType {
		return iv.V.(*NativeV).Data.(*fmtErr).wrapped
	}
	if pt, ok := iv.T.(*types.Pointer); ok {
		if n, ok := pt.Elem().(*types.Named); ok && n.Obj().Name() == "DatabaseError" {
			p := iv.V.(*PtrV)
			return []Val{p.sub(0).load()}
		}
	}
	return nil
}

func (e *Exec) errorsIs(err, target Val, depth int) *Term {
	iv, _ := err.(*IfaceV)
	if iv == nil || iv.T == nil {
		return mkBool(isNilVal(target))
	}
	eq := e.valEq(iv, target)
	if eq.IsConst() && eq.B {
		return tTrue
	}
	res := eq
	if depth < 5 {
		for _, w := range e.unwrapErr(iv) {
			res = tOr(res, e.errorsIs(w, target, depth+1))
		}
	}
	return res
}

func (e *Exec) errorsAs(err Val, tp *PtrV, tt types.Type, depth int) bool {
	iv, _ := err.(*IfaceV)
	if iv == nil || iv.T == nil {
		return false
	}
	if it, ok := tt.Underlying().(*types.Interface); ok {
		if iv.T != sentinelType && iv.T != fmtErrorType && types.Implements(iv.T, it) {
			tp.store(iv)
			return true
		}
	} else if iv.T != sentinelType && iv.T != fmtErrorType && types.Identical(iv.T, tt) {
		tp.store(iv.V)
		return true
	}
	if depth < 5 {
		for _, w := range e.unwrapErr(iv) {
			if e.errorsAs(w, tp, tt, depth+1) {
				return true
			}
		}
	}
	return false
}

func init() {
	bufOf := func(e *Exec, v Val) string {
		k := v.(*PtrV).key()
		if e.buffers == nil {
			e.buffers = map[string]*Term{}
		}
		if _, ok := e.buffers[k]; !ok {
			e.buffers[k] = mkStr("")
		}
		return k
	}
	stubs["(*bytes.Buffer).WriteByte"] = func(e *Exec, th *Thread, c *CallCtx, a []Val) StubRes {
		k := bufOf(e, a[0])
		b := a[1].(*Term)
		if !b.IsConst() {
			panic(pathEnd{kind: "unsupported", msg: "Buffer.WriteByte symbolic"})
		}
		e.buffers[k] = tStrConcat(e.buffers[k], mkStr(string([]byte{byte(b.U)})))
		return ret(nilIface)
	}
	stubs["(*bytes.Buffer).Write"] = func(e *Exec, th *Thread, c *CallCtx, a []Val) StubRes {
		k := bufOf(e, a[0])
		p := a[1].(*BytesV)
		e.buffers[k] = tStrConcat(e.buffers[k], p.S)
		return ret(TupleV{tStrLen(p.S), nilIface})
	}
	stubs["(*bytes.Buffer).WriteString"] = func(e *Exec, th *Thread, c *CallCtx, a []Val) StubRes {
		k := bufOf(e, a[0])
		s := a[1].(*Term)
		e.buffers[k] = tStrConcat(e.buffers[k], s)
		return ret(TupleV{tStrLen(s), nilIface})
	}
	stubs["(*bytes.Buffer).Bytes"] = func(e *Exec, th *Thread, c *CallCtx, a []Val) StubRes {
		k := bufOf(e, a[0])
		bv := bytesOf(e.buffers[k])
		// the returned slice aliases the buffer's storage until the buffer is reset and rewritten
		if e.bufAliases == nil {
			e.bufAliases = map[string][]*BytesV{}
		}
		e.bufAliases[k] = append(e.bufAliases[k], bv)
		return ret(bv)
	}
	stubs["(*bytes.Buffer).Reset"] = func(e *Exec, th *Thread, c *CallCtx, a []Val) StubRes {
		k := bufOf(e, a[0])
		e.buffers[k] = mkStr("")
		// slices handed out earlier share the storage that is about to be overwritten: their
		// contents become arbitrary (over-approximation of the aliasing)
		for _, bv := range e.bufAliases[k] {
			bv.S = e.fresh("clobbered", SBlob)
		}
		if e.bufAliases != nil {
			e.bufAliases[k] = nil
		}
		return ret(nil)
	}
	stubs["(*bytes.Buffer).String"] = func(e *Exec, th *Thread, c *CallCtx, a []Val) StubRes {
		k := bufOf(e, a[0])
		return ret(e.buffers[k])
	}
}

func init() {
	// name validation (regexp) is library code outside the claims: names used by harnesses are valid
	stubs["github.com/couchbase/sg-bucket.NewValidDataStoreName"] = func(e *Exec, th *Thread, c *CallCtx, a []Val) StubRes {
		return ret(TupleV{&StructV{F: []Val{a[0], a[1]}}, nilIface})
	}
}

func init() {
	stubs[rosmarPath+".verifRevidText"] = func(e *Exec, th *Thread, c *CallCtx, a []Val) StubRes {
		return ret(bytesOf(e.sprintf(`"%d"`, []Val{a[0]})))
	}
}
