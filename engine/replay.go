package main

// Native replay: filled in replay_native.go (placeholder until built).
func replayWitnesses(repo, hdir string, r *HarnessRun, labels []string) (int, []string) { return 0, nil }
func replayViolation(repo, hdir string, v *Violation, path string) string             { return "unreplayed" }
func replayOnly(repo, hdir, file string) int                                           { return 2 }
