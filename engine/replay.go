package main

// Native replay: the harness is compiled with the native intrinsics into a
// `go test` binary of /repo's current tree (overlay, nothing written into
// /repo) and run once per solver model.

import (
	"encoding/json"
	"fmt"
	"os"
	"os/exec"
	"path/filepath"
	"sort"
	"strings"
	"sync"
	"time"
)

type replayResult struct {
	Failed         []string `json:"failed"`
	Reached        []string `json:"reached"`
	AssumeViolated []string `json:"assume_violated"`
	Panic          string   `json:"panic"`
	MissingInputs  []string `json:"missing_inputs"`
	Notes          []string `json:"notes"`
	runErr         string
}

var (
	replayOnce sync.Once
	replayBin  string
	replayErr  error
	replayTmp  string
)

func cleanupReplay() {
	if replayTmp != "" {
		os.RemoveAll(replayTmp)
	}
}

func buildReplayBinary(repo, hdir string, harnessNames []string) (string, error) {
	replayOnce.Do(func() {
		tmp, err := os.MkdirTemp("", "gosmt-replay")
		if err != nil {
			replayErr = err
			return
		}
		replayTmp = tmp
		overlay := map[string]string{}
		files, _ := filepath.Glob(filepath.Join(hdir, "*.go"))
		for _, f := range files {
			base := filepath.Base(f)
			if strings.HasSuffix(base, "_sym.go") {
				continue
			}
			overlay[filepath.Join(repo, "zz_verif_"+base)] = f
		}
		nfiles, _ := filepath.Glob(filepath.Join(hdir, "native", "*.go"))
		for _, f := range nfiles {
			base := filepath.Base(f)
			overlay[filepath.Join(repo, "zz_verif_"+base)] = f
		}
		// registry of harness entry points
		var sb strings.Builder
		sb.WriteString("//go:build verif && verifnative\n\npackage rosmar\n\nvar verifHarnesses = map[string]func(){\n")
		sort.Strings(harnessNames)
		for _, h := range harnessNames {
			fmt.Fprintf(&sb, "\t%q: %s,\n", h, h)
		}
		sb.WriteString("}\n")
		reg := filepath.Join(tmp, "registry.go")
		os.WriteFile(reg, []byte(sb.String()), 0o644)
		overlay[filepath.Join(repo, "zz_verif_registry.go")] = reg
		ob, _ := json.Marshal(map[string]interface{}{"Replace": overlay})
		of := filepath.Join(tmp, "overlay.json")
		os.WriteFile(of, ob, 0o644)
		bin := filepath.Join(tmp, "replay.test")
		cmd := exec.Command("go", "test", "-c", "-o", bin, "-tags", "verif,verifnative", "-vet=off", "-overlay", of, ".")
		cmd.Dir = repo
		cmd.Env = append(os.Environ(), "GOFLAGS=-mod=mod", "GOPROXY=off", "GOSUMDB=off", "GOTOOLCHAIN=local")
		out, err := cmd.CombinedOutput()
		if err != nil {
			replayErr = fmt.Errorf("building native replay binary: %v\n%s", err, out)
			return
		}
		replayBin = bin
	})
	return replayBin, replayErr
}

func runReplay(bin string, harness string, model map[string]string, thorough bool) *replayResult {
	mf, _ := os.CreateTemp(replayTmp, "model*.json")
	b, _ := json.Marshal(map[string]interface{}{"harness": harness, "model": model})
	mf.Write(b)
	mf.Close()
	rf := mf.Name() + ".result"
	cmd := exec.Command("timeout", "120", bin, "-test.run", "^TestVerifReplay$", "-test.count=1")
	cmd.Dir = replayTmp
	tier := "quick"
	if thorough {
		tier = "thorough"
	}
	cmd.Env = append(os.Environ(), "VERIF_REPLAY="+mf.Name(), "VERIF_RESULT="+rf, "VERIF_TIER="+tier)
	out, err := cmd.CombinedOutput()
	if os.Getenv("GOSMT_REPLAY_OUT") != "" {
		os.Stderr.Write(out)
	}
	res := &replayResult{}
	rb, rerr := os.ReadFile(rf)
	if rerr != nil {
		res.runErr = fmt.Sprintf("no result (%v): %s", err, tail(string(out), 600))
		return res
	}
	json.Unmarshal(rb, res)
	os.Remove(mf.Name())
	os.Remove(rf)
	return res
}

func tail(s string, n int) string {
	if len(s) > n {
		return s[len(s)-n:]
	}
	return s
}

var allHarnessNames []string
var replayThorough bool

func contains(l []string, s string) bool {
	for _, x := range l {
		if x == s {
			return true
		}
	}
	return false
}

// replayWitnesses: each reachability witness must reach its label natively
// with no assumption violated and (unless a violation was found on that
// label's path) no failed assertion.
func replayWitnesses(repo, hdir string, r *HarnessRun, labels []string) (int, []string) {
	bin, err := buildReplayBinary(repo, hdir, allHarnessNames)
	if err != nil {
		return 0, []string{err.Error()}
	}
	ok := 0
	var bad []string
	for _, l := range labels {
		// a label is validated if one of its candidate models (up to three, from different
		// paths) replays natively; it is a mismatch only if every candidate fails
		cands := append([]*Witness{r.Witnesses[l]}, r.AltWitnesses[l]...)
		var firstBad string
		good := false
		for _, w := range cands {
			if w.Model["_concretization_failed"] != "" || w.SymOnly {
				continue
			}
			res := runReplay(bin, r.Name, w.Model, replayThorough)
			problem := ""
			switch {
			case res.runErr != "":
				problem = fmt.Sprintf("%s: %s", l, res.runErr)
			case res.Panic != "":
				problem = fmt.Sprintf("%s: native panic %s", l, res.Panic)
			case len(res.AssumeViolated) > 0:
				problem = fmt.Sprintf("%s: pre-state from the model violates an assumption natively", l)
			case !contains(res.Reached, l):
				problem = fmt.Sprintf("%s: label not reached natively (reached %v, failed %v)", l, res.Reached, res.Failed)
			default:
				// a native assertion failure on a path the solver proved clean is always a
				// mismatch, whatever the other candidates do
				for _, f := range res.Failed {
					if _, isViol := r.Violations[f]; !isViol {
						bad = append(bad, fmt.Sprintf("%s: assertion %q fails natively but not symbolically", l, f))
					}
				}
			}
			if problem == "" {
				good = true
				ok++
				break
			}
			fmt.Fprintf(os.Stderr, "note: witness candidate did not replay: %s %s\n", r.Name, problem)
			if d := os.Getenv("GOSMT_KEEPBAD"); d != "" {
				os.MkdirAll(d, 0o755)
				wb, _ := json.Marshal(map[string]interface{}{"harness": r.Name, "label": l, "problem": problem, "model": w.Model})
				os.WriteFile(filepath.Join(d, fmt.Sprintf("bad-%s-%s-%d.json", r.Name, sanitizeName(l), time.Now().UnixNano())), wb, 0o644)
			}
			if firstBad == "" {
				firstBad = problem
			}
		}
		if !good && firstBad != "" {
			bad = append(bad, firstBad)
		}
	}
	return ok, bad
}

func replayViolation(repo, hdir string, v *Violation, path string) string {
	bin, err := buildReplayBinary(repo, hdir, allHarnessNames)
	if err != nil {
		return err.Error()
	}
	if len(v.Sched) > 0 || v.Kind == "deadlock" || v.SymOnly {
		return "unreplayed" // schedules / injected faults are not replayed natively (stated)
	}
	if v.Model["_concretization_failed"] != "" {
		return "model could not be concretised"
	}
	res := runReplay(bin, v.Harness, v.Model, replayThorough)
	if res.runErr != "" {
		return res.runErr
	}
	if len(res.AssumeViolated) > 0 {
		return "pre-state from the model violates an assumption natively"
	}
	switch v.Kind {
	case "assert":
		if contains(res.Failed, v.Label) {
			return "reproduced"
		}
		return fmt.Sprintf("assertion held natively (failed=%v reached=%v panic=%q)", res.Failed, res.Reached, res.Panic)
	case "panic":
		if res.Panic != "" {
			return "reproduced"
		}
		return "no panic natively"
	}
	return "unreplayed"
}

func replayOnly(repo, hdir, file string) int {
	b, err := os.ReadFile(file)
	if err != nil {
		fmt.Fprintln(os.Stderr, err)
		return 2
	}
	var v Violation
	if err := json.Unmarshal(b, &v); err != nil {
		fmt.Fprintln(os.Stderr, err)
		return 2
	}
	L, err := loadRepo(repo, hdir)
	if err != nil {
		fmt.Fprintln(os.Stderr, "cannot build:", err)
		return 2
	}
	for _, h := range L.harnesses() {
		allHarnessNames = append(allHarnessNames, h.Name())
	}
	defer cleanupReplay()
	if bin, err := buildReplayBinary(repo, hdir, allHarnessNames); err == nil {
		rr := runReplay(bin, v.Harness, v.Model, replayThorough)
		fmt.Printf("native run: reached=%v failed=%v assume_violated=%v panic=%q missing_inputs=%v notes=%v %s\n", rr.Reached, rr.Failed, rr.AssumeViolated, rr.Panic, rr.MissingInputs, rr.Notes, rr.runErr)
	}
	res := replayViolation(repo, hdir, &v, file)
	fmt.Printf("replay of %s [%s]: %s\n", v.Harness, v.Label, res)
	if res == "reproduced" {
		fmt.Printf("VIOLATION property=%s replay=%s\n", propOfHarness(v.Harness), file)
		return 1
	}
	return 0
}
