package main

// database/sql + go-sqlite3 stub: handles, transactions, connection budget,
// bind and scan conversions.

import (
	"fmt"
	"go/token"
	"go/types"
	"strings"
)

// Store is the database file (or in-memory database): committed state and the
// single writer lock. DB is one *sql.DB handle (connection pool) on a store.
type Store struct {
	committed *DBState
	txn       *Txn
	commits   int // number of times the committed state was replaced
	path      string
}

type DB struct {
	*Store
	id        int
	name      string
	closed    bool
	maxConns  int
	openRows  int
	inMemory  bool
	stmtCount int
	faults    bool // fault injection enabled (C10/C20 harnesses)
	openErr   bool // the file could not be opened (every use fails)
}

type Txn struct {
	db     *DB
	work   *DBState
	owner  int
	done   bool
	writes int
}

type rowRes struct {
	found *Term
	vals  []SQLVal
	err   Val
}

type rowsRes struct {
	rows   [][]SQLVal
	names  []string
	pos    int
	closed bool
	db     *DB
	holds  bool
	err    Val
}

var sqlResultType types.Type = types.NewNamed(types.NewTypeName(token.NoPos, nil, "sqlResult", nil), types.NewStruct(nil, nil), nil)

func init() {
	old := nativeTypeMethodsExtra
	nativeTypeMethodsExtra = func(t types.Type, name string) (Val, bool) {
		if t == sqlResultType {
			switch name {
			case "RowsAffected":
				return &FuncV{nativeFn: func(e *Exec, th *Thread, a []Val) Val {
					r := a[0].(*NativeV).Data.(*execResult)
					return TupleV{r.rowsAffected, nilIface}
				}}, true
			case "LastInsertId":
				return &FuncV{nativeFn: func(e *Exec, th *Thread, a []Val) Val {
					r := a[0].(*NativeV).Data.(*execResult)
					return TupleV{mkBV(64, uint64(r.lastInsertID)), nilIface}
				}}, true
			}
		}
		if old != nil {
			return old(t, name)
		}
		return nil, false
	}
}

var nativeTypeMethodsExtra func(t types.Type, name string) (Val, bool)

// ---------- bind ----------

func (e *Exec) bindArg(v Val) (SQLVal, string, Val) {
	iv, ok := v.(*IfaceV)
	if !ok {
		panic(pathEnd{kind: "unsupported", msg: fmt.Sprintf("SQL arg %T", v)})
	}
	if iv.T == nil {
		return sqlNull(), "", nil
	}
	// sql.NamedArg
	if n, ok := iv.T.(*types.Named); ok && n.Obj().Name() == "NamedArg" && n.Obj().Pkg().Path() == "database/sql" {
		sv := iv.V.(*StructV)
		name := sv.F[1].(*Term)
		if !name.IsConst() {
			panic(pathEnd{kind: "unsupported", msg: "symbolic NamedArg name"})
		}
		val, _, err := e.bindArg(sv.F[2])
		return val, name.Str, err
	}
	switch x := iv.V.(type) {
	case *Term:
		switch x.S.K {
		case KBool:
			return sqlInt(tIte(x, mkBV(64, 1), mkBV(64, 0))), "", nil
		case KStr, KBlob:
			return sqlText(x), "", nil
		case KInt:
			return sqlInt(tInt2BV(x, 64)), "", nil
		case KBV:
			signed := isSignedBasic(iv.T)
			if x.S.W == 64 && !signed {
				// driver.DefaultParameterConverter: uint64 with high bit set is rejected
				if e.branch(tBVCmp("bvuge", x, mkBV(64, 1<<63))) {
					return SQLVal{}, "", e.newError("bind", "sql: converting argument type: uint64 values with high bit set are not supported")
				}
			}
			return sqlInt(tBVResize(x, 64, signed)), "", nil
		}
	case *BytesV:
		return SQLVal{K: kBlob, Null: x.Nil, S: x.S}, "", nil
	case *NativeV:
		if x.Kind == "jval" {
			break
		}
	}
	panic(pathEnd{kind: "unsupported", msg: fmt.Sprintf("SQL bind of %s", describe(iv.V))})
}

func (e *Exec) bindArgs(args Val) (map[string]SQLVal, Val) {
	params := map[string]SQLVal{}
	pos := 0
	for _, a := range variadicArgs(args) {
		v, name, err := e.bindArg(a)
		if err != nil {
			return nil, err
		}
		if name != "" {
			params["$"+name] = v
			params[":"+name] = v
			params["@"+name] = v
			continue
		}
		pos++
		params[fmt.Sprintf("?%d", pos)] = v
	}
	return params, nil
}

// ---------- scan ----------

// scanInto converts a SQL value into *dest (database/sql convertAssign rules).
// Returns an error value or nil.
func (e *Exec) scanInto(v SQLVal, dest Val, idx int) Val {
	iv, ok := dest.(*IfaceV)
	if !ok || iv.T == nil {
		return e.newError("scan", "sql: Scan destination not a pointer")
	}
	pt, ok := iv.T.Underlying().(*types.Pointer)
	if !ok {
		return e.newError("scan", "sql: Scan destination not a pointer")
	}
	p := iv.V.(*PtrV)
	et := pt.Elem()
	if v.K == kBool {
		v = v.asInt()
	}
	nullErr := func() Val {
		return e.newError("scan", fmt.Sprintf("sql: Scan error on column index %d: converting NULL to %s is unsupported", idx, et))
	}
	// sql.NullInt64 / sql.NullString
	if n, ok := et.(*types.Named); ok && n.Obj().Pkg() != nil && n.Obj().Pkg().Path() == "database/sql" {
		switch n.Obj().Name() {
		case "NullInt64":
			if v.K == kNullK {
				v = nullOfKind(kInt)
			}
			if v.K != kInt {
				panic(pathEnd{kind: "unsupported", msg: "scan non-int into NullInt64"})
			}
			p.store(&StructV{F: []Val{tIte(v.Null, mkBV(64, 0), v.I), tNot(v.Null)}})
			return nil
		case "NullString":
			if v.K == kNullK {
				v = nullOfKind(kText)
			}
			if v.K == kInt {
				s := e.injUF("sqlIntToText", SStr, v.I)
				p.store(&StructV{F: []Val{tIte(v.Null, mkStr(""), s), tNot(v.Null)}})
				return nil
			}
			p.store(&StructV{F: []Val{tIte(v.Null, mkStr(""), v.S), tNot(v.Null)}})
			return nil
		}
	}
	if isByteSlice(et) {
		switch v.K {
		case kNullK:
			p.store(bytesNil())
		case kText, kBlob:
			p.store(&BytesV{Nil: v.Null, S: tIte(v.Null, mkStr(""), v.S)})
		case kInt:
			s := e.injUF("sqlIntToText", SStr, v.I)
			p.store(&BytesV{Nil: v.Null, S: tIte(v.Null, mkStr(""), s)})
		}
		return nil
	}
	s, ok := sortOf(et)
	if !ok {
		panic(pathEnd{kind: "unsupported", msg: fmt.Sprintf("scan into %s", et)})
	}
	if v.K == kNullK || e.branch(v.Null) {
		return nullErr()
	}
	switch s.K {
	case KStr:
		switch v.K {
		case kText, kBlob:
			p.store(v.S)
		case kInt:
			p.store(e.injUF("sqlIntToText", SStr, v.I))
		}
		return nil
	case KBool:
		if v.K != kInt {
			panic(pathEnd{kind: "unsupported", msg: "scan text into bool"})
		}
		is1 := tEq(v.I, mkBV(64, 1))
		is0 := tEq(v.I, mkBV(64, 0))
		if !e.branch(tOr(is0, is1)) {
			return e.newError("scan", fmt.Sprintf("sql: Scan error on column index %d: couldn't convert to bool", idx))
		}
		p.store(is1)
		return nil
	case KInt: // Go int
		if v.K != kInt {
			panic(pathEnd{kind: "unsupported", msg: "scan text into int"})
		}
		p.store(tBV2Int(v.I, true))
		return nil
	case KBV:
		if v.K != kInt {
			panic(pathEnd{kind: "unsupported", msg: "scan text into integer"})
		}
		signed := isSignedBasic(et)
		w := s.W
		var inRange *Term
		if signed {
			if w == 64 {
				inRange = tTrue
			} else {
				lo := mkBV(64, uint64(-(int64(1) << uint(w-1))))
				hi := mkBV(64, uint64((int64(1)<<uint(w-1))-1))
				inRange = tAnd(tBVCmp("bvsge", v.I, lo), tBVCmp("bvsle", v.I, hi))
			}
		} else {
			if w == 64 {
				inRange = tBVCmp("bvsge", v.I, mkBV(64, 0))
			} else {
				inRange = tAnd(tBVCmp("bvsge", v.I, mkBV(64, 0)), tBVCmp("bvsle", v.I, mkBV(64, mask(w))))
			}
		}
		if !e.branch(inRange) {
			return e.newError("scan", fmt.Sprintf("sql: Scan error on column index %d: value out of range", idx))
		}
		p.store(tBVResize(v.I, w, false))
		return nil
	}
	panic(pathEnd{kind: "unsupported", msg: fmt.Sprintf("scan into sort %v", s)})
}

// ---------- statement dispatch ----------

func (e *Exec) sqlText(v Val) string {
	t := v.(*Term)
	if !t.IsConst() {
		panic(pathEnd{kind: "unsupported", msg: "symbolic SQL text"})
	}
	e.sqlSeen[strings.Join(strings.Fields(t.Str), " ")] = true
	return t.Str
}

// stateFor returns the state a handle operates on; for pool handles this
// checks the connection budget (may block).
func (e *Exec) poolAccess(th *Thread, db *DB, write bool) (st *DBState, blocked bool, err Val) {
	e.visibleAction(th, "sql pool "+db.name)
	if db.closed {
		return nil, false, e.newError("closed", "sql: database is closed")
	}
	if db.openErr {
		return nil, false, e.newError("sqlite", "unable to open database file")
	}
	inUse := db.openRows
	if db.txn != nil && !db.txn.done {
		inUse++
	}
	if inUse >= db.maxConns {
		e.block(th, func() bool {
			u := db.openRows
			if db.txn != nil && !db.txn.done {
				u++
			}
			return u < db.maxConns || db.closed
		}, fmt.Sprintf("sql connection pool exhausted on %s (max %d)", db.name, db.maxConns))
		return nil, true, nil
	}
	if write && db.txn != nil && !db.txn.done {
		// writer lock held by the open transaction (_txlock=immediate)
		e.block(th, func() bool { return db.txn == nil || db.txn.done }, "sqlite write lock on "+db.name)
		return nil, true, nil
	}
	return db.committed, false, nil
}

func (e *Exec) execStmts(st *DBState, sql string, params map[string]SQLVal) (execResult, Val) {
	stmts, err := parseCached(sql)
	if err != nil {
		panic(pathEnd{kind: "unsupported", msg: "UNSUPPORTED-SQL: " + err.Error()})
	}
	var last execResult
	last.rowsAffected = mkBV(64, 0)
	for _, s := range stmts {
		switch x := s.(type) {
		case *InsertStmt:
			last = e.execInsert(st, x, params)
		case *UpdateStmt:
			last = e.execUpdate(st, x, params)
		case *DeleteStmt:
			last = e.execDelete(st, x, params)
		case *CreateTableStmt:
			td := e.schema().defs[strings.ToLower(x.name)]
			if _, exists := st.tables[td.name]; exists {
				return last, e.newError("sqlite", "table already exists")
			}
			t := &Table{def: td}
			spare := map[string]int{"bucket": 1, "collections": 3, "documents": 12, "designdocs": 2, "views": 2, "mapped": 2}[td.name]
			for i := 0; i < spare; i++ {
				t.rows = append(t.rows, e.absentRow(td))
			}
			st.tables[td.name] = t
		case *CreateIndexStmt:
		case *PragmaStmt:
			if x.set != nil {
				if l, ok := x.set.(*ELit); ok && strings.EqualFold(x.name, "user_version") {
					st.userVersion = l.i
				}
			}
		default:
			panic(pathEnd{kind: "unsupported", msg: fmt.Sprintf("UNSUPPORTED-SQL: Exec of %T", s)})
		}
		if last.err != "" {
			return last, e.newError("sqlite", last.err)
		}
	}
	return last, nil
}

func (e *Exec) queryRowOn(st *DBState, sql string, params map[string]SQLVal) *rowRes {
	stmts, err := parseCached(sql)
	if err != nil {
		panic(pathEnd{kind: "unsupported", msg: "UNSUPPORTED-SQL: " + err.Error()})
	}
	if len(stmts) != 1 {
		panic(pathEnd{kind: "unsupported", msg: "UNSUPPORTED-SQL: multi-statement query"})
	}
	switch x := stmts[0].(type) {
	case *PragmaStmt:
		return &rowRes{found: tTrue, vals: []SQLVal{sqlIntC(st.userVersion)}}
	case *SelectStmt:
		if len(x.orderBy) > 0 || x.limit != nil {
			panic(pathEnd{kind: "unsupported", msg: "QueryRow with ORDER BY/LIMIT"})
		}
		rel := e.evalSelectRel(st, x, params)
		rr := &rowRes{found: tFalse}
		if len(rel.rows) == 0 {
			return rr
		}
		n := len(rel.rows[0].vals)
		// first matching row in slot order
		vals := make([]SQLVal, n)
		for k := len(rel.rows) - 1; k >= 0; k-- {
			r := rel.rows[k]
			if k == len(rel.rows)-1 {
				copy(vals, r.vals)
				for i := range vals {
					if vals[i].K == kNullK {
						// give NULL literal a kind from another row if possible
						for _, o := range rel.rows {
							if o.vals[i].K != kNullK {
								vals[i] = nullOfKind(o.vals[i].K)
								break
							}
						}
					}
				}
			} else {
				for i := range vals {
					vals[i] = sqlIte(r.match, r.vals[i], vals[i])
				}
			}
			rr.found = tOr(rr.found, r.match)
		}
		rr.vals = vals
		return rr
	}
	panic(pathEnd{kind: "unsupported", msg: fmt.Sprintf("UNSUPPORTED-SQL: QueryRow of %T", stmts[0])})
}

// queryOn materialises a multi-row result; presence and order are decided by forking.
func (e *Exec) queryOn(st *DBState, sql string, params map[string]SQLVal) *rowsRes {
	stmts, err := parseCached(sql)
	if err != nil {
		panic(pathEnd{kind: "unsupported", msg: "UNSUPPORTED-SQL: " + err.Error()})
	}
	if len(stmts) != 1 {
		panic(pathEnd{kind: "unsupported", msg: "UNSUPPORTED-SQL: multi-statement query"})
	}
	x, ok := stmts[0].(*SelectStmt)
	if !ok {
		panic(pathEnd{kind: "unsupported", msg: fmt.Sprintf("UNSUPPORTED-SQL: Query of %T", stmts[0])})
	}
	rel := e.evalSelectRel(st, x, params)
	var sel []selRow
	for _, r := range rel.rows {
		if e.branch(r.match) {
			sel = append(sel, r)
		}
	}
	// insertion sort with symbolic comparisons
	if len(x.orderBy) > 0 {
		less := func(a, b selRow) bool {
			// lexicographic over order terms
			var lt *Term = tFalse
			eqPrefix := tTrue
			for i, ot := range x.orderBy {
				ka, kb := a.sort[i], b.sort[i]
				var l, eq *Term
				if ka.K == kInt || ka.K == kBool {
					ka, kb = ka.asInt(), kb.asInt()
					l = tBVCmp("bvslt", ka.I, kb.I)
					eq = tEq(ka.I, kb.I)
				} else {
					l = e.strLess(ka.S, kb.S)
					eq = tEq(ka.S, kb.S)
				}
				if ot.desc {
					l = tAnd(tNot(l), tNot(eq))
				}
				lt = tOr(lt, tAnd(eqPrefix, l))
				eqPrefix = tAnd(eqPrefix, eq)
			}
			return e.branch(lt)
		}
		for i := 1; i < len(sel); i++ {
			for j := i; j > 0 && less(sel[j], sel[j-1]); j-- {
				sel[j], sel[j-1] = sel[j-1], sel[j]
			}
		}
	}
	if x.limit != nil {
		ctx := &evalCtx{e: e, st: st, params: params, row: &relRow{present: tTrue, cols: map[string]SQLVal{}}}
		lv := ctx.eval(x.limit)
		if !lv.I.IsConst() {
			panic(pathEnd{kind: "unsupported", msg: "symbolic LIMIT"})
		}
		if n := int(lv.I.U); n >= 0 && n < len(sel) {
			sel = sel[:n]
		}
	}
	rr := &rowsRes{names: rel.names}
	for _, r := range sel {
		rr.rows = append(rr.rows, r.vals)
	}
	return rr
}

func isDB(v Val) (*DB, bool) {
	nv, ok := v.(*NativeV)
	if !ok || nv.Kind != "sql.DB" {
		return nil, false
	}
	return nv.Data.(*DB), true
}

func (e *Exec) crashPoint(what string) {
	e.stubCalls++
	if e.crashAt >= 0 && e.stubCalls == e.crashAt {
		panic(pathEnd{kind: "crash", msg: what})
	}
}

func init() {
	S := func(n string) string { return "(*database/sql." + n }

	stubs[S("DB).SetMaxOpenConns")] = func(e *Exec, th *Thread, c *CallCtx, a []Val) StubRes {
		db, _ := isDB(a[0])
		db.maxConns = e.concreteInt(a[1], "SetMaxOpenConns")
		return ret(nil)
	}
	stubs[S("DB).Close")] = func(e *Exec, th *Thread, c *CallCtx, a []Val) StubRes {
		db, ok := isDB(a[0])
		if !ok {
			panic(goPanic{"nil *sql.DB"})
		}
		e.visibleAction(th, "sql close")
		db.closed = true
		return ret(nilIface)
	}
	stubs[S("DB).Begin")] = func(e *Exec, th *Thread, c *CallCtx, a []Val) StubRes {
		db, ok := isDB(a[0])
		if !ok {
			panic(goPanic{"nil *sql.DB"})
		}
		e.visibleAction(th, "sql begin")
		if db.closed {
			return ret(TupleV{&PtrV{}, e.newError("closed", "sql: database is closed")})
		}
		if db.txn != nil && !db.txn.done {
			e.block(th, func() bool { return db.txn == nil || db.txn.done || db.closed }, "sqlite write lock (Begin) on "+db.name)
			return StubRes{blocked: true}
		}
		if db.openRows >= db.maxConns {
			e.block(th, func() bool { return db.openRows < db.maxConns || db.closed }, "sql connection pool exhausted (Begin) on "+db.name)
			return StubRes{blocked: true}
		}
		e.crashPoint("begin")
		if db.faults {
			if f := e.faultChoice("begin"); f != nil {
				return ret(TupleV{&PtrV{}, f})
			}
		}
		db.txn = &Txn{db: db, work: db.committed.clone(), owner: th.id}
		return ret(TupleV{&NativeV{Kind: "sql.Tx", Data: db.txn}, nilIface})
	}
	txOf := func(v Val) *Txn {
		nv, ok := v.(*NativeV)
		if !ok || nv.Kind != "sql.Tx" {
			panic(goPanic{"nil *sql.Tx"})
		}
		return nv.Data.(*Txn)
	}
	stubs[S("Tx).Commit")] = func(e *Exec, th *Thread, c *CallCtx, a []Val) StubRes {
		tx := txOf(a[0])
		e.visibleAction(th, "sql commit")
		if tx.done {
			return ret(&IfaceV{T: sentinelType, V: &NativeV{Kind: "sentinel", Data: "database/sql.ErrTxDone"}})
		}
		e.crashPoint("commit")
		if tx.db.faults {
			if f := e.faultChoice("commit"); f != nil {
				// a failed COMMIT leaves the transaction open until rolled back
				return ret(f)
			}
		}
		tx.done = true
		if tx.db.closed {
			return ret(e.newError("closed", "sql: database is closed"))
		}
		tx.db.committed = tx.work
		tx.db.commits++
		tx.db.txn = nil
		e.crashPoint("after-commit")
		return ret(nilIface)
	}
	stubs[S("Tx).Rollback")] = func(e *Exec, th *Thread, c *CallCtx, a []Val) StubRes {
		tx := txOf(a[0])
		if tx.done {
			return ret(&IfaceV{T: sentinelType, V: &NativeV{Kind: "sentinel", Data: "database/sql.ErrTxDone"}})
		}
		e.visibleAction(th, "sql rollback")
		tx.done = true
		tx.db.txn = nil
		return ret(nilIface)
	}
	stubs[S("Tx).Exec")] = func(e *Exec, th *Thread, c *CallCtx, a []Val) StubRes {
		tx := txOf(a[0])
		e.visibleAction(th, "sql tx exec")
		if tx.done {
			return ret(TupleV{nilIface, &IfaceV{T: sentinelType, V: &NativeV{Kind: "sentinel", Data: "database/sql.ErrTxDone"}}})
		}
		sql := e.sqlText(a[1])
		params, berr := e.bindArgs(a[2])
		if berr != nil {
			return ret(TupleV{nilIface, berr})
		}
		e.crashPoint("exec")
		if tx.db.faults {
			if f := e.faultChoice("exec"); f != nil {
				return ret(TupleV{nilIface, f})
			}
		}
		res, err := e.execStmts(tx.work, sql, params)
		tx.writes++
		if err != nil {
			return ret(TupleV{nilIface, err})
		}
		return ret(TupleV{&IfaceV{T: sqlResultType, V: &NativeV{Kind: "sql.Result", Data: &res}}, nilIface})
	}
	stubs[S("Tx).QueryRow")] = func(e *Exec, th *Thread, c *CallCtx, a []Val) StubRes {
		tx := txOf(a[0])
		e.visibleAction(th, "sql tx queryrow")
		sql := e.sqlText(a[1])
		if tx.done {
			return ret(&NativeV{Kind: "sql.Row", Data: &rowRes{err: &IfaceV{T: sentinelType, V: &NativeV{Kind: "sentinel", Data: "database/sql.ErrTxDone"}}}})
		}
		params, berr := e.bindArgs(a[2])
		if berr != nil {
			return ret(&NativeV{Kind: "sql.Row", Data: &rowRes{err: berr}})
		}
		return ret(&NativeV{Kind: "sql.Row", Data: e.queryRowOn(tx.work, sql, params)})
	}
	stubs[S("Tx).Query")] = func(e *Exec, th *Thread, c *CallCtx, a []Val) StubRes {
		tx := txOf(a[0])
		e.visibleAction(th, "sql tx query")
		sql := e.sqlText(a[1])
		if tx.done {
			return ret(TupleV{&PtrV{}, &IfaceV{T: sentinelType, V: &NativeV{Kind: "sentinel", Data: "database/sql.ErrTxDone"}}})
		}
		params, berr := e.bindArgs(a[2])
		if berr != nil {
			return ret(TupleV{&PtrV{}, berr})
		}
		rr := e.queryOn(tx.work, sql, params)
		return ret(TupleV{&NativeV{Kind: "sql.Rows", Data: rr}, nilIface})
	}

	stubs[S("DB).Exec")] = func(e *Exec, th *Thread, c *CallCtx, a []Val) StubRes {
		db, ok := isDB(a[0])
		if !ok {
			panic(goPanic{"nil *sql.DB"})
		}
		st, blocked, err := e.poolAccess(th, db, true)
		if blocked {
			return StubRes{blocked: true}
		}
		if err != nil {
			return ret(TupleV{nilIface, err})
		}
		sql := e.sqlText(a[1])
		params, berr := e.bindArgs(a[2])
		if berr != nil {
			return ret(TupleV{nilIface, berr})
		}
		e.crashPoint("pool-exec")
		// autocommit: statement is atomic
		work := st.clone()
		res, xerr := e.execStmts(work, sql, params)
		if xerr != nil {
			return ret(TupleV{nilIface, xerr})
		}
		db.committed = work
		db.commits++
		return ret(TupleV{&IfaceV{T: sqlResultType, V: &NativeV{Kind: "sql.Result", Data: &res}}, nilIface})
	}
	stubs[S("DB).QueryRow")] = func(e *Exec, th *Thread, c *CallCtx, a []Val) StubRes {
		db, ok := isDB(a[0])
		if !ok {
			panic(goPanic{"nil *sql.DB"})
		}
		st, blocked, err := e.poolAccess(th, db, false)
		if blocked {
			return StubRes{blocked: true}
		}
		if err != nil {
			return ret(&NativeV{Kind: "sql.Row", Data: &rowRes{err: err}})
		}
		sql := e.sqlText(a[1])
		params, berr := e.bindArgs(a[2])
		if berr != nil {
			return ret(&NativeV{Kind: "sql.Row", Data: &rowRes{err: berr}})
		}
		return ret(&NativeV{Kind: "sql.Row", Data: e.queryRowOn(st, sql, params)})
	}
	stubs[S("DB).Query")] = func(e *Exec, th *Thread, c *CallCtx, a []Val) StubRes {
		db, ok := isDB(a[0])
		if !ok {
			panic(goPanic{"nil *sql.DB"})
		}
		st, blocked, err := e.poolAccess(th, db, false)
		if blocked {
			return StubRes{blocked: true}
		}
		if err != nil {
			return ret(TupleV{&PtrV{}, err})
		}
		sql := e.sqlText(a[1])
		params, berr := e.bindArgs(a[2])
		if berr != nil {
			return ret(TupleV{&PtrV{}, berr})
		}
		rr := e.queryOn(st, sql, params)
		rr.db = db
		rr.holds = true
		db.openRows++
		return ret(TupleV{&NativeV{Kind: "sql.Rows", Data: rr}, nilIface})
	}

	stubs[S("Row).Scan")] = func(e *Exec, th *Thread, c *CallCtx, a []Val) StubRes {
		nv, ok := a[0].(*NativeV)
		if !ok {
			panic(goPanic{"Scan on nil *sql.Row"})
		}
		r := nv.Data.(*rowRes)
		if r.err != nil {
			return ret(r.err)
		}
		if !e.branch(r.found) {
			return ret(&IfaceV{T: sentinelType, V: &NativeV{Kind: "sentinel", Data: "database/sql.ErrNoRows"}})
		}
		dests := variadicArgs(a[1])
		if len(dests) != len(r.vals) {
			return ret(e.newError("scan", fmt.Sprintf("sql: expected %d destination arguments in Scan, not %d", len(r.vals), len(dests))))
		}
		for i, d := range dests {
			if err := e.scanInto(r.vals[i], d, i); err != nil {
				return ret(err)
			}
		}
		return ret(nilIface)
	}
	rowsOf := func(v Val) *rowsRes {
		nv, ok := v.(*NativeV)
		if !ok || nv.Kind != "sql.Rows" {
			panic(goPanic{"nil *sql.Rows"})
		}
		return nv.Data.(*rowsRes)
	}
	release := func(r *rowsRes) {
		if !r.closed {
			r.closed = true
			if r.holds && r.db != nil {
				r.db.openRows--
			}
		}
	}
	stubs[S("Rows).Next")] = func(e *Exec, th *Thread, c *CallCtx, a []Val) StubRes {
		r := rowsOf(a[0])
		if r.closed {
			return ret(tFalse)
		}
		if r.pos >= len(r.rows) {
			release(r) // database/sql closes Rows when Next returns false
			return ret(tFalse)
		}
		r.pos++
		return ret(tTrue)
	}
	stubs[S("Rows).Scan")] = func(e *Exec, th *Thread, c *CallCtx, a []Val) StubRes {
		r := rowsOf(a[0])
		if r.closed || r.pos == 0 {
			return ret(e.newError("scan", "sql: Rows are closed / Scan called without calling Next"))
		}
		row := r.rows[r.pos-1]
		dests := variadicArgs(a[1])
		if len(dests) != len(row) {
			return ret(e.newError("scan", fmt.Sprintf("sql: expected %d destination arguments in Scan, not %d", len(row), len(dests))))
		}
		for i, d := range dests {
			if err := e.scanInto(row[i], d, i); err != nil {
				return ret(err)
			}
		}
		return ret(nilIface)
	}
	stubs[S("Rows).Close")] = func(e *Exec, th *Thread, c *CallCtx, a []Val) StubRes {
		release(rowsOf(a[0]))
		return ret(nilIface)
	}
	stubs[S("Rows).Err")] = func(e *Exec, th *Thread, c *CallCtx, a []Val) StubRes {
		return ret(nilIface)
	}
	stubs[S("Rows).Columns")] = func(e *Exec, th *Thread, c *CallCtx, a []Val) StubRes {
		r := rowsOf(a[0])
		var names []Val
		for _, n := range r.names {
			names = append(names, mkStr(n))
		}
		return ret(TupleV{e.newSlice(names), nilIface})
	}
	stubs["database/sql.Named"] = func(e *Exec, th *Thread, c *CallCtx, a []Val) StubRes {
		return ret(&StructV{F: []Val{&StructV{}, a[0], a[1]}})
	}
	stubs["database/sql.Register"] = noop
}

// faultChoice: in fault harnesses a Begin/Exec/Commit may fail with a
// symbolic choice of {no fault, BUSY, other error}.
func (e *Exec) faultChoice(where string) Val {
	budget, _ := e.world["faultBudget"].(int)
	if budget <= 0 {
		return nil
	}
	k := e.choose(3)
	if k == 0 {
		return nil
	}
	e.world["faultBudget"] = budget - 1
	e.symOnly = true // injected faults cannot be replayed against the real driver
	e.labels = append(e.labels, "fault:"+where)
	if k == 1 {
		return e.sqliteError(5) // SQLITE_BUSY
	}
	return e.newError("io", "disk I/O error (injected)")
}

// sqliteError builds a github.com/mattn/go-sqlite3.Error value with the given code.
func (e *Exec) sqliteError(code int) Val {
	pkg := e.L.pkgs["github.com/mattn/go-sqlite3"]
	if pkg == nil {
		panic(pathEnd{kind: "unsupported", msg: "go-sqlite3 not loaded"})
	}
	tn := pkg.Type("Error")
	st := tn.Type().Underlying().(*types.Struct)
	sv := zeroVal(tn.Type()).(*StructV)
	for i := 0; i < st.NumFields(); i++ {
		if st.Field(i).Name() == "Code" {
			sv.F[i] = mkInt(int64(code))
			if s, ok := sortOf(st.Field(i).Type()); ok && s.K == KBV {
				sv.F[i] = mkBV(s.W, uint64(code))
			}
		}
	}
	return &IfaceV{T: tn.Type(), V: sv}
}

// strLess: the collation order on text keys, an uninterpreted strict total
// order; irreflexivity, asymmetry, totality and transitivity are instantiated
// over the finitely many terms that get compared on the path.
func (e *Exec) strLess(a, b *Term) *Term {
	a, b = toBlob(a), toBlob(b)
	less := func(x, y *Term) *Term { return mkUF("sqlStrLess", SBool, x, y) }
	terms, _ := e.world["orderTerms"].([]*Term)
	for _, t := range []*Term{a, b} {
		known := false
		for _, o := range terms {
			if sameTerm(o, t) {
				known = true
			}
		}
		if known {
			continue
		}
		e.assume(tNot(less(t, t)))
		for _, o := range terms {
			e.assume(tNot(tAnd(less(t, o), less(o, t))))
			e.assume(tOr(tEq(t, o), less(t, o), less(o, t)))
			e.assume(tImplies(tEq(t, o), tAnd(tNot(less(t, o)), tNot(less(o, t)))))
			for _, p := range terms {
				if p == o {
					continue
				}
				for _, tr := range [][3]*Term{{t, o, p}, {o, t, p}, {o, p, t}, {t, p, o}, {p, t, o}, {p, o, t}} {
					e.assume(tImplies(tAnd(less(tr[0], tr[1]), less(tr[1], tr[2])), less(tr[0], tr[2])))
				}
			}
		}
		terms = append(terms, t)
	}
	e.world["orderTerms"] = terms
	return less(a, b)
}
