package main

// Bridge for a small whitelist of pure standard-library functions that are
// evaluated natively on concrete arguments (net/url, path/filepath): this is
// how OpenBucket's URL handling is crossed — the URL is configuration, not a
// quantified input. Also os.* on a symbolic file system, sql.Open, uuid.

import (
	"fmt"
	"go/types"
	"net/url"
	"path/filepath"
	"reflect"
	"strings"
)

var nativeBridge = map[string]interface{}{
	"(*net/url.URL).String":    (*url.URL).String,
	"(*net/url.URL).Query":     (*url.URL).Query,
	"(*net/url.URL).JoinPath":  (*url.URL).JoinPath,
	"(net/url.Values).Get":     url.Values.Get,
	"(net/url.Values).Set":     url.Values.Set,
	"(net/url.Values).Add":     url.Values.Add,
	"(net/url.Values).Encode":  url.Values.Encode,
	"net/url.Parse":            url.Parse,
	"path/filepath.Join":       filepath.Join,
	"path/filepath.ToSlash":    filepath.ToSlash,
	"path/filepath.IsAbs":      filepath.IsAbs,
}

func (e *Exec) toNative(v Val, rt reflect.Type) reflect.Value {
	switch rt.Kind() {
	case reflect.String:
		t := v.(*Term)
		if !t.IsConst() || t.S != SStr {
			panic(pathEnd{kind: "unsupported", msg: "native call with symbolic string"})
		}
		return reflect.ValueOf(t.Str).Convert(rt)
	case reflect.Bool:
		t := v.(*Term)
		if !t.IsConst() {
			panic(pathEnd{kind: "unsupported", msg: "native call with symbolic bool"})
		}
		return reflect.ValueOf(t.B).Convert(rt)
	case reflect.Int, reflect.Int64, reflect.Int32:
		return reflect.ValueOf(int64(e.concreteInt(v, "native int"))).Convert(rt)
	case reflect.Ptr:
		p, _ := v.(*PtrV)
		if p.isNil() {
			return reflect.Zero(rt)
		}
		nv := reflect.New(rt.Elem())
		nv.Elem().Set(e.toNative(p.load(), rt.Elem()))
		return nv
	case reflect.Struct:
		sv := v.(*StructV)
		nv := reflect.New(rt).Elem()
		for i := 0; i < rt.NumField(); i++ {
			if rt.Field(i).PkgPath != "" {
				continue // unexported: left zero
			}
			nv.Field(i).Set(e.toNative(sv.F[i], rt.Field(i).Type))
		}
		return nv
	case reflect.Map:
		m := v.(*MapV)
		if m.isNil {
			return reflect.Zero(rt)
		}
		nm := reflect.MakeMap(rt)
		for _, en := range m.entries {
			nm.SetMapIndex(e.toNative(en.k, rt.Key()), e.toNative(en.v, rt.Elem()))
		}
		return nm
	case reflect.Slice:
		s := v.(*SliceV)
		if s.isNil {
			return reflect.Zero(rt)
		}
		ns := reflect.MakeSlice(rt, 0, s.ln)
		for _, el := range s.elems() {
			ns = reflect.Append(ns, e.toNative(el, rt.Elem()))
		}
		return ns
	}
	panic(pathEnd{kind: "unsupported", msg: "toNative " + rt.String()})
}

func (e *Exec) fromNative(rv reflect.Value, gt types.Type) Val {
	switch rv.Kind() {
	case reflect.String:
		return mkStr(rv.String())
	case reflect.Bool:
		return mkBool(rv.Bool())
	case reflect.Ptr:
		if rv.IsNil() {
			return &PtrV{}
		}
		et := gt.Underlying().(*types.Pointer).Elem()
		return &PtrV{c: e.newCell(e.fromNative(rv.Elem(), et), "native")}
	case reflect.Struct:
		st := gt.Underlying().(*types.Struct)
		sv := &StructV{F: make([]Val, st.NumFields())}
		for i := 0; i < st.NumFields(); i++ {
			if rv.Type().Field(i).PkgPath != "" {
				sv.F[i] = zeroVal(st.Field(i).Type())
				continue
			}
			sv.F[i] = e.fromNative(rv.Field(i), st.Field(i).Type())
		}
		return sv
	case reflect.Map:
		if rv.IsNil() {
			return &MapV{isNil: true}
		}
		mt := gt.Underlying().(*types.Map)
		m := e.newMap()
		keys := rv.MapKeys()
		// deterministic order
		for i := 0; i < len(keys); i++ {
			for j := i + 1; j < len(keys); j++ {
				if keys[j].String() < keys[i].String() {
					keys[i], keys[j] = keys[j], keys[i]
				}
			}
		}
		for _, k := range keys {
			m.entries = append(m.entries, &mapEntry{k: e.fromNative(k, mt.Key()), v: e.fromNative(rv.MapIndex(k), mt.Elem())})
		}
		return m
	case reflect.Slice:
		if rv.IsNil() {
			return &SliceV{isNil: true}
		}
		et := gt.Underlying().(*types.Slice).Elem()
		var els []Val
		for i := 0; i < rv.Len(); i++ {
			els = append(els, e.fromNative(rv.Index(i), et))
		}
		return e.newSlice(els)
	case reflect.Interface:
		if rv.IsNil() {
			return nilIface
		}
		if err, ok := rv.Interface().(error); ok {
			return e.newError("native", err.Error())
		}
	}
	panic(pathEnd{kind: "unsupported", msg: "fromNative " + rv.Type().String()})
}

func init() {
	for name, fn := range nativeBridge {
		name, fn := name, fn
		stubs[name] = func(e *Exec, th *Thread, c *CallCtx, a []Val) StubRes {
			fv := reflect.ValueOf(fn)
			ft := fv.Type()
			var in []reflect.Value
			for i := 0; i < ft.NumIn(); i++ {
				in = append(in, e.toNative(a[i], ft.In(i)))
			}
			var out []reflect.Value
			if ft.IsVariadic() {
				out = fv.CallSlice(in)
			} else {
				out = fv.Call(in)
			}
			// map arguments are mutated in place (url.Values.Set/Add): write back
			for i := 0; i < ft.NumIn(); i++ {
				if ft.In(i).Kind() == reflect.Map {
					if m, ok := a[i].(*MapV); ok && !m.isNil {
						sig := c.fn.Signature
						var gt types.Type
						if sig.Recv() != nil {
							if i == 0 {
								gt = sig.Recv().Type()
							} else {
								gt = sig.Params().At(i - 1).Type()
							}
						} else {
							gt = sig.Params().At(i).Type()
						}
						nm := e.fromNative(in[i], gt).(*MapV)
						m.entries = nm.entries
					}
				}
			}
			res := c.fn.Signature.Results()
			switch len(out) {
			case 0:
				return ret(nil)
			case 1:
				return ret(e.fromNative(out[0], res.At(0).Type()))
			}
			tv := make(TupleV, len(out))
			for i := range out {
				tv[i] = e.fromNative(out[i], res.At(i).Type())
			}
			return ret(tv)
		}
	}

	sentinel := func(name string) Val {
		return &IfaceV{T: sentinelType, V: &NativeV{Kind: "sentinel", Data: name}}
	}
	// ---- symbolic file system: path -> exists (decided lazily by forking) ----
	fsExists := func(e *Exec, path string) bool {
		k := "fs:" + path
		if v, ok := e.world[k]; ok {
			return v.(bool)
		}
		e.symOnly = true
		ex := e.choose(2) == 1
		e.world[k] = ex
		e.labels = append(e.labels, fmt.Sprintf("fs:%s=%v", path, ex))
		return ex
	}
	pathArg := func(e *Exec, v Val) string {
		t := v.(*Term)
		if !t.IsConst() {
			panic(pathEnd{kind: "unsupported", msg: "symbolic file path"})
		}
		return t.Str
	}
	stubs["os.Stat"] = func(e *Exec, th *Thread, c *CallCtx, a []Val) StubRes {
		if fsExists(e, pathArg(e, a[0])) {
			return ret(TupleV{sentinel("fileinfo"), nilIface})
		}
		return ret(TupleV{nilIface, sentinel("io/fs.ErrNotExist")})
	}
	stubs["os.Mkdir"] = func(e *Exec, th *Thread, c *CallCtx, a []Val) StubRes {
		p := pathArg(e, a[0])
		if fsExists(e, p) {
			return ret(sentinel("io/fs.ErrExist"))
		}
		e.world["fs:"+p] = true
		return ret(nilIface)
	}
	stubs["os.Remove"] = func(e *Exec, th *Thread, c *CallCtx, a []Val) StubRes {
		p := pathArg(e, a[0])
		if strings.HasSuffix(p, "rosmar.sqlite3") {
			// the database file exists iff a store is registered at that path
			if _, ok := e.world["store:"+p]; !ok {
				return ret(sentinel("io/fs.ErrNotExist"))
			}
			delete(e.world, "store:"+p)
			return ret(nilIface)
		}
		if !fsExists(e, p) {
			return ret(sentinel("io/fs.ErrNotExist"))
		}
		e.world["fs:"+p] = false
		return ret(nilIface)
	}
	stubs["github.com/google/uuid.New"] = func(e *Exec, th *Thread, c *CallCtx, a []Val) StubRes {
		return ret(zeroVal(c.fn.Signature.Results().At(0).Type()))
	}
	stubs["(github.com/google/uuid.UUID).String"] = func(e *Exec, th *Thread, c *CallCtx, a []Val) StubRes {
		return ret(e.fresh("uuid", SStr))
	}
	// sql.Open: in-memory DSN -> a new empty database; file DSN -> the store at that path
	stubs["database/sql.Open"] = func(e *Exec, th *Thread, c *CallCtx, a []Val) StubRes {
		dsn := pathArg(e, a[1])
		u, err := url.Parse(dsn)
		if err != nil {
			return ret(TupleV{&PtrV{}, e.newError("sql", "bad dsn")})
		}
		mode := u.Query().Get("mode")
		db := &DB{id: len(e.dbs), name: u.Path, maxConns: 1 << 30, inMemory: mode == "memory"}
		e.dbs = append(e.dbs, db)
		if mode == "memory" {
			db.Store = &Store{committed: &DBState{tables: map[string]*Table{}}, path: dsn}
		} else {
			k := "store:" + u.Path
			if st, ok := e.world[k].(*Store); ok {
				db.Store = st
			} else if mode == "rw" {
				// ReOpenExisting of a missing file: go-sqlite3 fails on first use
				db.Store = &Store{committed: &DBState{tables: map[string]*Table{}}, path: u.Path}
				db.openErr = true
			} else {
				st := &Store{committed: &DBState{tables: map[string]*Table{}}, path: u.Path}
				e.world[k] = st
				db.Store = st
			}
		}
		e.world[fmt.Sprintf("db%d.ndocs", db.id)] = 0
		return ret(TupleV{&NativeV{Kind: "sql.DB", Data: db}, nilIface})
	}
	p := rosmarPath + "."
	// verifRegisterStore(db, dsnPath): make db's store the on-disk database found at dsnPath
	stubs[p+"verifRegisterStore"] = func(e *Exec, th *Thread, c *CallCtx, a []Val) StubRes {
		db, _ := isDB(a[0])
		path := pathArg(e, a[1])
		db.Store.path = path
		e.world["store:"+path] = db.Store
		return ret(nil)
	}
	stubs[p+"verifStoreExists"] = func(e *Exec, th *Thread, c *CallCtx, a []Val) StubRes {
		_, ok := e.world["store:"+pathArg(e, a[0])]
		return ret(mkBool(ok))
	}
	stubs[p+"verifDBClosed"] = func(e *Exec, th *Thread, c *CallCtx, a []Val) StubRes {
		db, ok := isDB(a[0])
		return ret(mkBool(!ok || db.closed))
	}
}

func init() {
	stubs[rosmarPath+".verifFSSet"] = func(e *Exec, th *Thread, c *CallCtx, a []Val) StubRes {
		t := a[0].(*Term)
		e.world["fs:"+t.Str] = a[1].(*Term).B
		return ret(nil)
	}
}
