package main

import (
	"fmt"
	"os"
)

type yieldSignal struct{}

func (e *Exec) block(th *Thread, cond func() bool, why string) {
	th.blocked = cond
	th.blockOn = why
}

func (e *Exec) enabled(t *Thread) bool {
	if t.done {
		return false
	}
	if t.blocked != nil {
		return t.blocked()
	}
	return true
}

// visibleAction marks a context-switch point. It must be called before the
// action has any side effect. In explore mode it may abort the current
// instruction (yieldSignal) and run another thread first.
func (e *Exec) visibleAction(th *Thread, what string) {
	e.visible++
	if e.visible > e.maxVisible {
		panic(pathEnd{kind: "bound", msg: "visible action bound"})
	}
	if !e.explore {
		return
	}
	if th.justScheduled {
		th.justScheduled = false
		return
	}
	var en []*Thread
	for _, t := range e.threads {
		if e.enabled(t) {
			en = append(en, t)
		}
	}
	if len(en) <= 1 {
		return
	}
	if e.preemptions >= e.preemptBound {
		return // preemption bound reached: the running thread continues until it blocks or ends
	}
	// current thread first so that decision 0 = continue
	order := []*Thread{th}
	for _, t := range en {
		if t != th {
			order = append(order, t)
		}
	}
	k := e.choose(len(order))
	if k == 0 {
		return
	}
	nt := order[k]
	e.schedLog = append(e.schedLog, fmt.Sprintf("t%d@%s->t%d", th.id, what, nt.id))
	e.cur = nt
	nt.blocked = nil
	th.justScheduled = false
	e.preemptions++
	panic(yieldSignal{})
}

// pickNext selects a thread to run when the current one is done or blocked.
func (e *Exec) pickNext() *Thread {
	var en []*Thread
	for _, t := range e.threads {
		if e.enabled(t) {
			en = append(en, t)
		}
	}
	if len(en) == 0 {
		return nil
	}
	if !e.explore || len(en) == 1 {
		return en[0] // lowest id: main first
	}
	k := e.choose(len(en))
	return en[k]
}

// runThreads runs until `until` returns true, all threads are done, or
// nothing is enabled. Returns "ok", "deadlock" (someone blocked, none enabled).
func (e *Exec) runLoop(until func() bool) string {
	for {
		if until != nil && until() {
			return "ok"
		}
		th := e.cur
		if th == nil || !e.enabled(th) {
			th = e.pickNext()
			if th == nil {
				for _, t := range e.threads {
					if !t.done {
						return "deadlock"
					}
				}
				return "ok"
			}
			e.cur = th
		}
		if th.blocked != nil {
			th.blocked = nil
			th.justScheduled = true // it was chosen to perform its pending action
		}
		e.stepGuard(th)
	}
}

func (e *Exec) stepGuard(th *Thread) {
	fr := th.top()
	savedPC := fr.pc
	savedBlock := fr.block
	defer func() {
		if r := recover(); r != nil {
			if _, ok := r.(yieldSignal); ok {
				fr.pc = savedPC
				fr.block = savedBlock
				return
			}
			panic(r)
		}
	}()
	e.step(th)
}

// ---------- mutexes ----------

func (e *Exec) mutexOf(p *PtrV) *mutexState {
	k := p.key()
	m := e.mutexes[k]
	if m == nil {
		m = &mutexState{}
		e.mutexes[k] = m
	}
	return m
}

func (e *Exec) mutexLock(th *Thread, p *PtrV) bool {
	e.visibleAction(th, "lock "+p.key())
	m := e.mutexOf(p)
	if m.held {
		if m.owner == th.id {
			// self-deadlock unless someone else unlocks (Go mutexes are not owned, but
			// nobody else will in rosmar) — report as deadlock via blocking forever.
			e.block(th, func() bool { return !m.held }, "self-deadlock on mutex "+p.key())
			return false
		}
		e.block(th, func() bool { return !m.held }, "mutex "+p.key())
		return false
	}
	m.held = true
	m.owner = th.id
	return true
}

func (e *Exec) mutexUnlock(th *Thread, p *PtrV) {
	m := e.mutexOf(p)
	if !m.held {
		panic(goPanic{"sync: unlock of unlocked mutex"})
	}
	m.held = false
	e.visibleActionAfter(th, "unlock "+p.key())
}

// visibleActionAfter: a switch point after an action (no abort needed).
func (e *Exec) visibleActionAfter(th *Thread, what string) {
	// handled lazily: the next visible action of th is the switch point.
}

func dbg(format string, args ...interface{}) {
	if debugTrace {
		fmt.Fprintf(os.Stderr, format+"\n", args...)
	}
}

func init() {
	p := rosmarPath + "."
	stubs[p+"verifExplore"] = func(e *Exec, th *Thread, c *CallCtx, a []Val) StubRes {
		if n := e.concreteInt(a[0], "preemption bound"); n < 0 {
			e.explore = false // back to the deterministic schedule (lowest thread id first)
			return ret(nil)
		}
		e.explore = true
		e.preemptBound = e.concreteInt(a[0], "preemption bound")
		e.symOnly = true // schedules are not replayed natively
		return ret(nil)
	}
	stubs[p+"verifJoin"] = func(e *Exec, th *Thread, c *CallCtx, a []Val) StubRes {
		others := func() bool {
			for _, t := range e.threads {
				if t != th && e.enabled(t) {
					return false
				}
			}
			return true
		}
		if others() {
			return ret(nil)
		}
		e.block(th, others, "join")
		th.joining = true
		return StubRes{blocked: true}
	}
	stubs[p+"verifLiveThreads"] = func(e *Exec, th *Thread, c *CallCtx, a []Val) StubRes {
		n := 0
		for _, t := range e.threads {
			if t != th && !t.done {
				n++
			}
		}
		return ret(mkInt(int64(n)))
	}
	stubs[p+"verifFireTimers"] = func(e *Exec, th *Thread, c *CallCtx, a []Val) StubRes {
		n := 0
		for _, t := range e.timers {
			if t.armed {
				t.armed = false
				t.fired++
				nt := e.spawn(t.fn, nil, "timer")
				nt.name = fmt.Sprintf("timer%d", t.id)
				n++
			}
		}
		return ret(mkInt(int64(n)))
	}
}

func init() {
	stubs[rosmarPath+".verifDoneClosed"] = func(e *Exec, th *Thread, c *CallCtx, a []Val) StubRes {
		ch := a[0].(*ChanV)
		return ret(mkBool(!ch.isNil && ch.closed))
	}
}
