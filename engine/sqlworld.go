package main

// Harness intrinsics that create and observe the symbolic database.

import (
	"fmt"
	"go/types"
	"strings"
)

func (e *Exec) dbInput(name string, s Sort) *Term {
	t := mkVar(sanitizeName(name), s)
	kind := map[SortKind]string{KBool: "bool", KInt: "int", KStr: "str", KBV: "u64", KBlob: "blob"}[s.K]
	if strings.HasSuffix(name, ".xattrs") {
		kind = "xattrs"
	}
	e.inputs = append(e.inputs, inputRec{Name: t.Name, T: t, Kind: kind})
	return t
}

func (e *Exec) symCol(prefix string, cd *ColDef, nullable bool) SQLVal {
	k := kindOfType(cd.typ)
	v := SQLVal{K: k, Null: tFalse}
	if nullable {
		v.Null = e.dbInput(prefix+".null", SBool)
	}
	switch k {
	case kInt:
		v.I = e.dbInput(prefix, SBV(64))
	default:
		so := SStr
		switch strings.ToLower(cd.name) {
		case "key", "value", "xattrs":
			so = SBlob
		}
		v.S = e.dbInput(prefix, so)
		if nullable {
			e.assume(tImplies(v.Null, tEq(v.S, mkStr(""))))
		}
	}
	return v
}

// newSymbolicDB builds the pre-state: a bucket row, nColls collections
// (concrete ids/names, symbolic lastCas), nDocs fully symbolic document slots
// plus nSpare absent slots for inserts. Structural constraints (foreign key,
// UNIQUE) are assumed here; the semantic invariant is assumed by the harness.
func (e *Exec) newSymbolicDB(name string, inMemory bool, nColls, nDocs, nSpare int) *DB {
	sc := e.schema()
	db := &DB{Store: &Store{}, id: len(e.dbs), name: name, inMemory: inMemory, maxConns: 8}
	if inMemory {
		db.maxConns = 1
	}
	e.dbs = append(e.dbs, db)
	st := &DBState{tables: map[string]*Table{}, userVersion: 1}
	for _, tn := range sc.order {
		st.tables[tn] = &Table{def: sc.defs[tn]}
	}
	pfx := fmt.Sprintf("db%d", db.id)
	// bucket
	bt := st.tables["bucket"]
	brow := &SRow{present: tTrue, cols: make([]SQLVal, len(bt.def.cols))}
	for i, cd := range bt.def.cols {
		switch strings.ToLower(cd.name) {
		case "name":
			brow.cols[i] = sqlText(mkStr(name))
		case "uuid":
			brow.cols[i] = sqlText(e.dbInput(pfx+".bucket.uuid", SStr))
		case "lastcas":
			brow.cols[i] = sqlInt(e.dbInput(pfx+".bucket.lastCas", SBV(64)))
		default:
			brow.cols[i] = e.symCol(pfx+".bucket."+cd.name, cd, !cd.notNull)
		}
	}
	bt.rows = []*SRow{brow}
	// collections
	ct := st.tables["collections"]
	for k := 0; k < nColls; k++ {
		row := &SRow{present: tTrue, cols: make([]SQLVal, len(ct.def.cols))}
		for i, cd := range ct.def.cols {
			switch strings.ToLower(cd.name) {
			case "id":
				row.cols[i] = sqlIntC(int64(k + 1))
			case "scope":
				row.cols[i] = sqlText(mkStr(collScope(k)))
			case "name":
				row.cols[i] = sqlText(mkStr(collName(k)))
			case "lastcas":
				row.cols[i] = sqlInt(e.dbInput(fmt.Sprintf("%s.coll%d.lastCas", pfx, k), SBV(64)))
			default:
				row.cols[i] = e.symCol(fmt.Sprintf("%s.coll%d.%s", pfx, k, cd.name), cd, !cd.notNull)
			}
		}
		ct.rows = append(ct.rows, row)
	}
	ct.rows = append(ct.rows, e.absentRow(ct.def))
	ct.nextID = int64(nColls)
	// documents
	dt := st.tables["documents"]
	for i := 0; i < nDocs; i++ {
		p := fmt.Sprintf("%s.doc%d", pfx, i)
		row := &SRow{present: e.dbInput(p+".present", SBool), cols: make([]SQLVal, len(dt.def.cols))}
		for ci, cd := range dt.def.cols {
			switch strings.ToLower(cd.name) {
			case "id":
				row.cols[ci] = sqlIntC(int64(i + 1))
			case "xattrs", "value":
				row.cols[ci] = e.symCol(p+"."+cd.name, cd, true)
			default:
				row.cols[ci] = e.symCol(p+"."+cd.name, cd, false)
			}
		}
		// foreign key
		coll := row.cols[dt.def.colIdx["collection"]].I
		e.assume(tAnd(tBVCmp("bvsge", coll, mkBV(64, 1)), tBVCmp("bvsle", coll, mkBV(64, uint64(nColls)))))
		dt.rows = append(dt.rows, row)
	}
	// UNIQUE(collection,key)
	ci, ki := dt.def.colIdx["collection"], dt.def.colIdx["key"]
	for i := 0; i < nDocs; i++ {
		for j := i + 1; j < nDocs; j++ {
			a, b := dt.rows[i], dt.rows[j]
			same := tAnd(tEq(a.cols[ci].I, b.cols[ci].I), tEq(a.cols[ki].S, b.cols[ki].S))
			e.assume(tNot(tAnd(a.present, b.present, same)))
		}
	}
	for i := 0; i < nSpare; i++ {
		dt.rows = append(dt.rows, e.absentRow(dt.def))
	}
	dt.nextID = int64(nDocs)
	for _, tn := range []string{"designdocs", "views", "mapped"} {
		if t := st.tables[tn]; t != nil {
			n := 2
			if tn == "mapped" {
				n = nDocs + nSpare + 2
			}
			for i := 0; i < n; i++ {
				t.rows = append(t.rows, e.absentRow(t.def))
			}
		}
	}
	db.committed = st
	e.world[fmt.Sprintf("db%d.ndocs", db.id)] = nDocs
	e.world[fmt.Sprintf("db%d.ncolls", db.id)] = nColls
	return db
}

func collScope(k int) string {
	if k == 0 {
		return "_default"
	}
	return "sc"
}
func collName(k int) string {
	if k == 0 {
		return "_default"
	}
	return fmt.Sprintf("c%d", k)
}

func (e *Exec) absentRow(td *TableDef) *SRow {
	row := &SRow{present: tFalse, cols: make([]SQLVal, len(td.cols))}
	for i, cd := range td.cols {
		row.cols[i] = nullOfKind(kindOfType(cd.typ))
		row.cols[i].Null = tFalse
		if kindOfType(cd.typ) == kInt {
			row.cols[i].I = mkBV(64, 0)
		}
	}
	return row
}

// structFromRow builds a harness struct (by field name) from a symbolic row.
func (e *Exec) docStruct(t types.Type, td *TableDef, present *Term, cols []SQLVal) Val {
	st := t.Underlying().(*types.Struct)
	sv := &StructV{F: make([]Val, st.NumFields())}
	colOf := map[string]string{"ID": "id", "Coll": "collection", "Key": "key", "Cas": "cas", "Exp": "exp",
		"Xattrs": "xattrs", "IsJSON": "isjson", "Value": "value", "Tombstone": "tombstone", "Rev": "revseqno"}
	for i := 0; i < st.NumFields(); i++ {
		f := st.Field(i)
		if f.Name() == "Present" {
			sv.F[i] = present
			continue
		}
		cn, ok := colOf[f.Name()]
		if !ok {
			sv.F[i] = zeroVal(f.Type())
			continue
		}
		v := cols[td.colIdx[cn]]
		switch {
		case isByteSlice(f.Type()):
			sv.F[i] = &BytesV{Nil: tOr(v.Null, tNot(present)), S: tIte(tOr(v.Null, tNot(present)), mkStr(""), v.S)}
		case v.K == kInt:
			sv.F[i] = tIte(present, v.I, mkBV(64, 0))
		default:
			sv.F[i] = tIte(present, v.S, mkStr(""))
		}
	}
	return sv
}

func (e *Exec) currentState(db *DB) *DBState {
	return db.committed
}

func rowsEquiv(a, b *SRow) *Term {
	cs := []*Term{tEq(a.present, b.present)}
	var colEq []*Term
	for i := range a.cols {
		x, y := a.cols[i], b.cols[i]
		x, y = harmonize(x, y)
		var pe *Term
		switch x.K {
		case kInt:
			pe = tEq(x.I, y.I)
		case kBool:
			pe = tEq(x.B, y.B)
		case kNullK:
			pe = tTrue
		default:
			pe = tEq(x.S, y.S)
		}
		colEq = append(colEq, tEq(x.Null, y.Null), tOr(x.Null, pe))
	}
	cs = append(cs, tImplies(a.present, tAnd(colEq...)))
	return tAnd(cs...)
}

func tablesEquiv(a, b *Table) *Term {
	if len(a.rows) != len(b.rows) {
		return tFalse
	}
	var cs []*Term
	for i := range a.rows {
		if a.rows[i] == b.rows[i] {
			continue
		}
		cs = append(cs, rowsEquiv(a.rows[i], b.rows[i]))
	}
	return tAnd(cs...)
}

func init() {
	p := rosmarPath + "."
	dbOf := func(v Val) *DB {
		db, ok := isDB(v)
		if !ok {
			panic(pathEnd{kind: "unsupported", msg: "intrinsic: not a stub *sql.DB"})
		}
		return db
	}
	stubs[p+"verifNewDB"] = func(e *Exec, th *Thread, c *CallCtx, a []Val) StubRes {
		name := constName(a[0])
		inMem := a[1].(*Term)
		if !inMem.IsConst() {
			panic(pathEnd{kind: "unsupported", msg: "verifNewDB: inMemory must be concrete"})
		}
		db := e.newSymbolicDB(name, inMem.B, e.concreteInt(a[2], "nColls"), e.concreteInt(a[3], "nDocs"), e.concreteInt(a[4], "nSpare"))
		return ret(&NativeV{Kind: "sql.DB", Data: db})
	}
	stubs[p+"verifDocSlots"] = func(e *Exec, th *Thread, c *CallCtx, a []Val) StubRes {
		db := dbOf(a[0])
		return ret(mkInt(int64(e.world[fmt.Sprintf("db%d.ndocs", db.id)].(int))))
	}
	stubs[p+"verifDocSlot"] = func(e *Exec, th *Thread, c *CallCtx, a []Val) StubRes {
		db := dbOf(a[0])
		i := e.concreteInt(a[1], "slot")
		t := e.currentState(db).tables["documents"]
		r := t.rows[i]
		rt := c.fn.Signature.Results().At(0).Type()
		return ret(e.docStruct(rt, t.def, r.present, r.cols))
	}
	stubs[p+"verifDocSlotAny"] = func(e *Exec, th *Thread, c *CallCtx, a []Val) StubRes {
		db := dbOf(a[0])
		i := e.concreteInt(a[1], "slot")
		t := e.currentState(db).tables["documents"]
		rt := c.fn.Signature.Results().At(0).Type()
		if i >= len(t.rows) {
			return ret(e.docStruct(rt, t.def, tFalse, e.absentRow(t.def).cols))
		}
		r := t.rows[i]
		return ret(e.docStruct(rt, t.def, r.present, r.cols))
	}
	stubs[p+"verifGetDoc"] = func(e *Exec, th *Thread, c *CallCtx, a []Val) StubRes {
		db := dbOf(a[0])
		coll := a[1].(*Term)
		key := a[2].(*Term)
		t := e.currentState(db).tables["documents"]
		ci, ki := t.def.colIdx["collection"], t.def.colIdx["key"]
		present := tFalse
		cols := e.absentRow(t.def).cols
		for k := len(t.rows) - 1; k >= 0; k-- {
			r := t.rows[k]
			m := tAnd(r.present, tEq(r.cols[ci].I, coll), tEq(r.cols[ki].S, key))
			present = tOr(present, m)
			for j := range cols {
				cols[j] = sqlIte(m, r.cols[j], cols[j])
			}
		}
		rt := c.fn.Signature.Results().At(0).Type()
		return ret(e.docStruct(rt, t.def, present, cols))
	}
	stubs[p+"verifBucketLastCas"] = func(e *Exec, th *Thread, c *CallCtx, a []Val) StubRes {
		db := dbOf(a[0])
		t := e.currentState(db).tables["bucket"]
		return ret(t.rows[0].cols[t.def.colIdx["lastcas"]].I)
	}
	stubs[p+"verifCollLastCas"] = func(e *Exec, th *Thread, c *CallCtx, a []Val) StubRes {
		db := dbOf(a[0])
		id := a[1].(*Term)
		t := e.currentState(db).tables["collections"]
		ii, li := t.def.colIdx["id"], t.def.colIdx["lastcas"]
		res := mkBV(64, 0)
		for k := len(t.rows) - 1; k >= 0; k-- {
			r := t.rows[k]
			m := tAnd(r.present, tEq(r.cols[ii].I, id))
			res = tIte(m, tIte(r.cols[li].Null, mkBV(64, 0), r.cols[li].I), res)
		}
		return ret(res)
	}
	stubs[p+"verifCollLastCasAt"] = func(e *Exec, th *Thread, c *CallCtx, a []Val) StubRes {
		snap := e.world["snaps"].([]*DBState)[e.concreteInt(a[1], "snap")]
		id := a[2].(*Term)
		t := snap.tables["collections"]
		ii, li := t.def.colIdx["id"], t.def.colIdx["lastcas"]
		res := mkBV(64, 0)
		for k := len(t.rows) - 1; k >= 0; k-- {
			r := t.rows[k]
			m := tAnd(r.present, tEq(r.cols[ii].I, id))
			res = tIte(m, tIte(r.cols[li].Null, mkBV(64, 0), r.cols[li].I), res)
		}
		return ret(res)
	}
	stubs[p+"verifSnapshot"] = func(e *Exec, th *Thread, c *CallCtx, a []Val) StubRes {
		db := dbOf(a[0])
		snaps, _ := e.world["snaps"].([]*DBState)
		snaps = append(snaps, e.currentState(db).clone())
		e.world["snaps"] = snaps
		return ret(mkInt(int64(len(snaps) - 1)))
	}
	// verifSameDocsExcept(db, snap, coll, key): every documents row other than (coll,key) is unchanged
	stubs[p+"verifSameDocsExcept"] = func(e *Exec, th *Thread, c *CallCtx, a []Val) StubRes {
		db := dbOf(a[0])
		snap := e.world["snaps"].([]*DBState)[e.concreteInt(a[1], "snap")]
		coll, key := a[2].(*Term), a[3].(*Term)
		pre, post := snap.tables["documents"], e.currentState(db).tables["documents"]
		ci, ki := pre.def.colIdx["collection"], pre.def.colIdx["key"]
		var cs []*Term
		for i := range pre.rows {
			a, b := pre.rows[i], post.rows[i]
			if a == b {
				continue
			}
			isT := tOr(tAnd(a.present, tEq(a.cols[ci].I, coll), tEq(a.cols[ki].S, key)),
				tAnd(b.present, tEq(b.cols[ci].I, coll), tEq(b.cols[ki].S, key)))
			cs = append(cs, tOr(isT, rowsEquiv(a, b)))
		}
		return ret(tAnd(cs...))
	}
	// verifSameTable(db, snap, table)
	stubs[p+"verifSameTable"] = func(e *Exec, th *Thread, c *CallCtx, a []Val) StubRes {
		db := dbOf(a[0])
		snap := e.world["snaps"].([]*DBState)[e.concreteInt(a[1], "snap")]
		tn := strings.ToLower(constName(a[2]))
		return ret(tablesEquiv(snap.tables[tn], e.currentState(db).tables[tn]))
	}
	stubs[p+"verifSameDB"] = func(e *Exec, th *Thread, c *CallCtx, a []Val) StubRes {
		db := dbOf(a[0])
		snap := e.world["snaps"].([]*DBState)[e.concreteInt(a[1], "snap")]
		var cs []*Term
		for tn, t := range snap.tables {
			cs = append(cs, tablesEquiv(t, e.currentState(db).tables[tn]))
		}
		return ret(tAnd(cs...))
	}
	stubs[p+"verifCommitCount"] = func(e *Exec, th *Thread, c *CallCtx, a []Val) StubRes {
		return ret(mkInt(int64(dbOf(a[0]).commits)))
	}
	stubs[p+"verifFaults"] = func(e *Exec, th *Thread, c *CallCtx, a []Val) StubRes {
		db := dbOf(a[0])
		db.faults = true
		e.world["faultBudget"] = e.concreteInt(a[1], "fault budget")
		return ret(nil)
	}
	stubs[p+"verifTxnOpen"] = func(e *Exec, th *Thread, c *CallCtx, a []Val) StubRes {
		db := dbOf(a[0])
		return ret(mkBool(db.txn != nil && !db.txn.done))
	}
}
