//go:build verif

package rosmar

// C06: insert-only writes succeed iff the key has no body; a refused insert
// leaves everything untouched.
func Harness_C06_add() {
	env := verifWorld(true, 2, 2)
	c := env.colls[0]
	key := verifKey("key")
	val := verifBytes("val")
	verifAssume(val != nil)
	exp := verifU32("exp")
	pre := verifGetDoc(env.db, 1, key)
	snap := verifSnapshot(env.db)
	added, err := c.AddRaw(key, exp, val)
	post := verifGetDoc(env.db, 1, key)
	if err != nil {
		verifReach("error")
		verifAssert(verifSameDB(env.db, snap), "error leaves database unchanged")
		return
	}
	verifAssert(added == !pre.hasBody(), "insert succeeds iff key has no body")
	verifAssert(verifSameDocsExcept(env.db, snap, 1, key), "other rows untouched")
	if added {
		verifReach("added")
		verifAssert(verifAnd(post.Present, verifBytesEq(post.Value, val), post.Tombstone == 0), "added document is live with the given body")
		verifAssert(invDoc(post), "invariant preserved")
	} else {
		verifReach("refused")
		verifAssert(verifSameDocsExcept(env.db, snap, 99, ""), "refused insert leaves the document untouched")
	}
}
