//go:build verif

package rosmar

import (
	"errors"

	sgbucket "github.com/couchbase/sg-bucket"
)

// Property selectors: one exploration routine per write entry point serves
// several properties; each harness enables only the clauses of its property.
const (
	pC01 = 1 << iota
	pC02
	pC04
	pC05
	pC06
	pC07
	pC11
	pC17
	pC08
	pC14
	pC10
)

const fnPostNewEvent = "(*github.com/couchbaselabs/rosmar.Collection).postNewEvent"
const fnPostNewEvent2 = "(*github.com/couchbaselabs/rosmar.Collection)._postNewEvent"
const fnScheduleExp = "(*github.com/couchbaselabs/rosmar.expiryManager).scheduleExpirationAtOrBefore"

// verifCutEvents: feed delivery and expiry scheduling get empty bodies (they are
// the subject of C08/C14/C15/C16, not of the harness that cuts them).
func verifCutEvents() {
	verifCut(fnPostNewEvent)
	verifCut(fnPostNewEvent2)
	verifCut(fnScheduleExp)
}

type kvCtx struct {
	env  *verifEnv
	mask int
	c    *Collection
	coll int64
	key  string
	pre  verifDoc
	snap int
	h0   uint64 // hlc.highestTime before the call
	t0   uint32 // clock (as expiry) before the call
	f1, f2, fo, fk *dcpFeed // C08: feeds on this collection (via this / another handle), on another collection, keys-only
	ne0  uint32 // C14: next scheduled expiration before the call
	cc0  int    // C10: commits before the call
}

// kvBegin: arbitrary invariant-satisfying bucket with two collections that may
// hold the same keys, one addressed (collection, key).
func kvBegin(mask int) *kvCtx {
	// C10 is about on-disk buckets (8 pooled connections); everything else runs on the
	// single-connection in-memory configuration
	env := verifWorld(mask&pC10 == 0, 2, 2)
	k := &kvCtx{env: env, mask: mask, c: env.colls[0], coll: 1, key: verifKey("key")}
	if mask&(pC08|pC14) == 0 {
		verifCutEvents()
	}
	if mask&pC10 != 0 {
		verifFaults(env.db, verifFaultBudget) // injected Begin/Exec/Commit failures (BUSY or I/O error)
		k.cc0 = verifCommitCount(env.db)
	}
	if mask&pC14 != 0 {
		// arbitrary expiry-manager state consistent with the table: every pending
		// expiry is at or after the scheduled one (invariant clause 8)
		k.ne0 = verifU32("nextExp")
		verifAssume(verifOr(k.ne0 == 0, k.ne0 > kMaxDeltaTtl))
		env.b.expManager.setNext(k.ne0)
		for i := 0; i < verifDocSlots(env.db); i++ {
			d := verifDocSlot(env.db, i)
			verifAssume(verifImplies(verifAnd(d.Present, d.Exp > 0), verifAnd(k.ne0 != 0, int64(k.ne0) <= d.Exp)))
		}
	}
	if mask&pC08 != 0 {
		b2 := env.b.copy()
		c2 := b2._initCollection(verifCollName(0), 1)
		k.f1 = verifAddFeed(k.c, false)
		k.f2 = verifAddFeed(c2, false)
		k.fk = verifAddFeed(c2, true)
		k.fo = verifAddFeed(env.colls[1], false)
	}
	k.pre = verifGetDoc(env.db, k.coll, k.key)
	k.snap = verifSnapshot(env.db)
	k.h0 = hlc.highestTime
	k.t0 = nowAsExpiry()
	return k
}

func (k *kvCtx) want(p int) bool { return k.mask&p != 0 }
func (k *kvCtx) post() verifDoc  { return verifGetDoc(k.env.db, k.coll, k.key) }

func isCasMismatch(err error) bool { _, ok := err.(sgbucket.CasMismatchErr); return ok }
func isMissing(err error) bool     { _, ok := err.(sgbucket.MissingError); return ok }
func isKeyExists(err error) bool   { return errors.Is(err, sgbucket.ErrKeyExists) }

// failed: the call returned an error -> the whole database is as before.
func (k *kvCtx) failed(label string) {
	verifReach(label)
	verifAssert(verifSameDB(k.env.db, k.snap), "an operation that returns an error changes nothing")
	k.noEvents()
	if k.want(pC10) && verifSymbolic() {
		verifAssert(verifCommitCount(k.env.db) == k.cc0, "sym-only: a call that returns an error has committed nothing")
	}
}

func (k *kvCtx) noEvents() {
	if k.want(pC08) {
		verifAssert(k.f1.events.list.Len()+k.f2.events.list.Len()+k.fk.events.list.Len()+k.fo.events.list.Len() == 0, "an operation that fails or is refused delivers no event")
	}
}

// expOK: stored expiry is the absolute form of the given one (clock read between t0 and t1).
func expOK(given uint32, stored int64, t0, t1 uint32) bool {
	return verifOr(
		verifAnd(given == 0, stored == 0),
		verifAnd(given > kMaxDeltaTtl, stored == int64(given)),
		verifAnd(given > 0, given <= kMaxDeltaTtl, stored >= int64(given)+int64(t0), stored <= int64(given)+int64(t1)))
}

func (k *kvCtx) noXattrs(d verifDoc) bool {
	r := true
	for _, u := range k.env.U {
		r = verifAnd(r, !verifXattrHas(d.Xattrs, u))
	}
	return r
}

// sysXattrsOnly: exactly the system (underscore) xattrs of pre survive, byte for byte.
func (k *kvCtx) sysXattrsOnly(pre, post verifDoc) bool {
	r := true
	for _, u := range k.env.U {
		sys := verifIsSystemXattr(u)
		r = verifAnd(r,
			verifImplies(!sys, !verifXattrHas(post.Xattrs, u)),
			verifImplies(sys, verifXattrHas(post.Xattrs, u) == verifXattrHas(pre.Xattrs, u)),
			verifImplies(sys, verifBytesEq(verifXattrGet(post.Xattrs, u), verifXattrGet(pre.Xattrs, u))))
	}
	return r
}

func (k *kvCtx) sameXattrs(pre, post verifDoc) bool {
	r := true
	for _, u := range k.env.U {
		r = verifAnd(r, verifXattrHas(post.Xattrs, u) == verifXattrHas(pre.Xattrs, u),
			verifBytesEq(verifXattrGet(post.Xattrs, u), verifXattrGet(pre.Xattrs, u)))
	}
	return r
}

// mutated: clauses common to every successful mutation of (coll,key).
func (k *kvCtx) mutated(post verifDoc, newCas bool) {
	if k.want(pC01 | pC11) {
		verifAssert(verifSameDocsExcept(k.env.db, k.snap, k.coll, k.key), "a write changes no other document (other keys, other collections)")
		verifAssert(verifAnd(verifSameTable(k.env.db, k.snap, "designDocs"), verifSameTable(k.env.db, k.snap, "views"), verifSameTable(k.env.db, k.snap, "mapped")), "a document write leaves design documents and view indexes alone")
	}
	if k.want(pC11) {
		verifAssert(verifCollLastCas(k.env.db, 2) == verifCollLastCasAt(k.env.db, k.snap, 2), "other collection's high-water mark unchanged")
	}
	if k.want(pC17) {
		verifAssert(verifOr(verifAnd(k.pre.Present, post.Rev == k.pre.Rev+1), verifAnd(!k.pre.Present, post.Rev == 1)),
			"revision number +1 per successful mutation (1 on creation)")
	}
	if k.want(pC04) && newCas {
		verifAssert(verifAnd(uint64(post.Cas) > k.h0, uint64(post.Cas) == hlc.highestTime), "stored CAS is the fresh HLC value, above every CAS handed out before")
		verifAssert(verifAnd(verifBucketLastCas(k.env.db) == post.Cas, verifCollLastCas(k.env.db, k.coll) == post.Cas), "bucket and collection high-water marks record the new CAS")
	}
	if k.want(pC08) && newCas {
		k.checkEvents(post)
	}
	if k.want(pC10) && verifSymbolic() {
		verifAssert(verifCommitCount(k.env.db) == k.cc0+1, "sym-only: every effect of a successful call (row, CAS, expiry, revision, both high-water marks) is made durable by exactly one commit, before the call returns")
		verifAssert(!verifTxnOpen(k.env.db), "sym-only: no transaction left open")
	}
	if k.want(pC14) {
		em := k.env.b.expManager
		ne := *em.nextExp
		verifAssert(verifImplies(post.Exp > 0, verifAnd(ne != 0, int64(ne) <= post.Exp, verifTimerArmed(em.timer))),
			"after a write the expiry timer is armed at or before the document's expiry")
		verifAssert(verifImplies(k.ne0 != 0, verifAnd(ne != 0, ne <= k.ne0, verifTimerArmed(em.timer))),
			"a write never postpones an already scheduled expiration")
		verifAssert(verifImplies(ne != 0, verifTimerWithin(em.timer, ne)), "sym-only: timer duration is at most (scheduled expiry - now)")
	}
	if k.want(pC05) {
		verifAssert(post.Present, "mutated key exists")
		verifAssert((post.Tombstone == 1) == (post.Value == nil), "tombstone flag iff no body")
		verifAssert(invDoc(post), "row invariant preserved")
	}
}

// liveWith: post-state of a body-giving write.
func (k *kvCtx) liveWith(post verifDoc, body []byte, isJSON bool, exp uint32, preserveExp bool) {
	t1 := nowAsExpiry()
	if k.want(pC01 | pC06) {
		verifAssert(verifAnd(post.Present, verifBytesEq(post.Value, body)), "read-back body is the body written")
		verifAssert((post.IsJSON == 1) == isJSON, "JSON flag as written")
		if preserveExp && k.pre.Present {
			verifAssert(post.Exp == k.pre.Exp, "PreserveExpiry keeps the expiry")
		} else {
			verifAssert(expOK(exp, post.Exp, k.t0, t1), "expiry stored in absolute form")
		}
	}
	if k.want(pC05) {
		verifAssert(post.Tombstone == 0, "a document with a body is not a tombstone")
		if !k.pre.hasBody() {
			verifAssert(k.noXattrs(post), "giving a tombstone a body drops all of its xattrs")
		}
	}
	if k.want(pC07) && k.pre.hasBody() {
		verifAssert(k.sameXattrs(k.pre, post), "body-only write to a live document leaves its xattrs intact")
	}
}

// tombstoned: post-state of a delete.
func (k *kvCtx) tombstoned(post verifDoc) {
	if k.want(pC01 | pC05) {
		verifAssert(verifAnd(post.Present, post.Value == nil), "deleted document has no body")
	}
	if k.want(pC05) {
		verifAssert(post.Tombstone == 1, "deleted document is flagged as tombstone")
		verifAssert(post.Exp == 0, "delete clears the expiry")
		verifAssert(k.sysXattrsOnly(k.pre, post), "delete keeps exactly the system xattrs")
	}
}

// ---------- entry points ----------

func stepAdd(mask int, raw bool) {
	k := kvBegin(mask)
	val := verifBytes("val")
	verifAssume(val != nil)
	exp := verifU32("exp")
	var added bool
	var err error
	if raw {
		added, err = k.c.AddRaw(k.key, exp, val)
	} else {
		added, err = k.c.Add(k.key, exp, val)
	}
	post := k.post()
	if err != nil {
		k.failed("error")
		return
	}
	if k.want(pC06 | pC01) {
		verifAssert(added == !k.pre.hasBody(), "insert succeeds iff the key has no body")
	}
	if !added {
		verifReach("refused")
		verifAssert(verifSameTable(k.env.db, k.snap, "documents"), "a refused insert leaves every document untouched")
		k.noEvents()
		return
	}
	verifReach("added")
	k.mutated(post, true)
	k.liveWith(post, val, !raw || looksLikeJSON(val), exp, false)
}

func stepSet(mask int) {
	k := kvBegin(mask)
	val := verifBytes("val")
	verifAssume(val != nil)
	exp := verifU32("exp")
	var opts *sgbucket.UpsertOptions
	preserve := verifBool("preserve")
	if preserve {
		opts = &sgbucket.UpsertOptions{PreserveExpiry: true}
	}
	err := k.c.SetRaw(k.key, exp, opts, val)
	post := k.post()
	if err != nil {
		k.failed("error")
		return
	}
	verifReach("set")
	k.mutated(post, true)
	k.liveWith(post, val, false, exp, preserve)
}

var kvOpts = []sgbucket.WriteOptions{0, sgbucket.Raw, sgbucket.AddOnly, sgbucket.Raw | sgbucket.AddOnly, sgbucket.Append}

func stepWriteCas(mask int) {
	k := kvBegin(mask)
	opt := kvOpts[verifChoose("opt", len(kvOpts))]
	cas := verifU64("cas")
	exp := verifU32("exp")
	val := verifBytes("val")
	insertMode := opt&sgbucket.AddOnly != 0 || cas == 0
	if opt&sgbucket.AddOnly != 0 {
		verifAssume(cas == 0) // AddOnly together with an explicit CAS: not fixed by the property
	}
	if insertMode || opt&sgbucket.Append != 0 {
		verifAssume(val != nil)
	}
	if opt&sgbucket.Append != 0 {
		verifAssume(k.pre.hasBody()) // appending to a key without a body: not fixed by the property
	}
	casOut, err := k.c.WriteCas(k.key, exp, cas, val, opt)
	post := k.post()

	var shouldApply bool
	if insertMode {
		shouldApply = !k.pre.hasBody()
	} else {
		shouldApply = verifAnd(k.pre.Present, uint64(k.pre.Cas) == cas)
	}
	if err != nil {
		k.failed("refused")
		if k.want(pC02 | pC06) {
			verifAssert(verifOr(!shouldApply, !isCasMismatch(err) && !isKeyExists(err) && !isMissing(err)),
				"a write whose expected CAS is current (0 = no live document) is not refused as a conflict")
		}
		return
	}
	verifReach("applied")
	if k.want(pC02 | pC06) {
		verifAssert(shouldApply, "a conditional write is applied only if the expected CAS is current (0 = no live document)")
		verifAssert(casOut == uint64(post.Cas), "returned CAS is the stored CAS")
	}
	k.mutated(post, true)
	if val != nil {
		body := val
		if opt&sgbucket.Append != 0 {
			body = verifConcat(k.pre.Value, val)
		}
		k.liveWith(post, body, opt&(sgbucket.Raw|sgbucket.Append) == 0, exp, false)
	} else {
		verifReach("deleted-by-nil")
		k.tombstoned(post)
	}
}

func stepRemove(mask int, withCas bool) {
	k := kvBegin(mask)
	var cas uint64
	var err error
	var casOut uint64
	if withCas {
		cas = verifU64("cas")
		casOut, err = k.c.Remove(k.key, cas)
	} else {
		err = k.c.Delete(k.key)
	}
	post := k.post()
	casOK := verifOr(!withCas, uint64(k.pre.Cas) == cas)
	if err != nil {
		k.failed("refused")
		if k.want(pC02 | pC05 | pC01) {
			// deleting an existing tombstone may be refused as missing (left open)
			verifAssert(!verifAnd(k.pre.hasBody(), casOK), "delete of a live document with the current CAS is applied")
		}
		return
	}
	verifReach("deleted")
	if k.want(pC02 | pC01) {
		verifAssert(verifAnd(k.pre.Present, casOK), "delete is applied only to an existing document whose CAS matches")
		if withCas {
			verifAssert(casOut == uint64(post.Cas), "returned CAS is the stored CAS")
		}
	}
	k.mutated(post, true)
	k.tombstoned(post)
}

func stepTouch(mask int) {
	k := kvBegin(mask)
	exp := verifU32("exp")
	var val []byte
	var cas uint64
	var err error
	viaTouch := verifBool("viaTouch")
	if viaTouch {
		cas, err = k.c.Touch(k.key, exp) // the wrapper: same effect, returns the CAS only
	} else {
		val, cas, err = k.c.GetAndTouchRaw(k.key, exp)
	}
	post := k.post()
	if err != nil {
		k.failed("refused")
		if k.want(pC01) {
			verifAssert(!k.pre.hasBody(), "touch of a live document succeeds")
		}
		return
	}
	verifReach("touched")
	t1 := nowAsExpiry()
	if k.want(pC01) {
		verifAssert(k.pre.hasBody(), "touch of a key without a body reports it missing")
		verifAssert(verifAnd(verifOr(viaTouch, verifBytesEq(val, k.pre.Value)), cas == uint64(k.pre.Cas)), "GetAndTouch returns the current body and CAS")
		verifAssert(verifAnd(verifBytesEq(post.Value, k.pre.Value), k.sameXattrs(k.pre, post), post.IsJSON == k.pre.IsJSON), "touch leaves body and xattrs alone")
		verifAssert(expOK(exp, post.Exp, k.t0, t1), "touch stores the new expiry in absolute form")
	}
	k.mutated(post, false)
}

func stepIncr(mask int) {
	k := kvBegin(mask)
	amt, deflt := verifU64("amt"), verifU64("deflt")
	exp := verifU32("exp")
	// a live counter holds a decimal number (documented use of Incr)
	n := verifU64("n")
	if k.pre.hasBody() {
		verifAssume(verifIsCounter(k.pre.Value, n))
	}
	res, err := k.c.Incr(k.key, amt, deflt, exp)
	post := k.post()
	if err != nil {
		k.failed("error")
		return
	}
	verifReach("incremented")
	if k.want(pC01) {
		if k.pre.hasBody() {
			verifAssert(res == n+amt, "Incr adds to the stored counter")
		} else {
			verifAssert(res == deflt, "Incr of a key without a body yields the default")
		}
		verifAssert(verifIsCounter(post.Value, res), "stored counter is the returned value")
	}
	k.mutated(post, true)
	if k.want(pC05) {
		verifAssert(post.Tombstone == 0, "a document with a body is not a tombstone")
		if !k.pre.hasBody() {
			verifAssert(k.noXattrs(post), "giving a tombstone a body drops all of its xattrs")
		}
	}
	if k.want(pC07) && k.pre.hasBody() {
		verifAssert(k.sameXattrs(k.pre, post), "body-only write to a live document leaves its xattrs intact")
	}
}

// C05: PurgeTombstones removes exactly the tombstones (of every collection) and reports their count.
func Harness_C05_purge() {
	env := verifWorld(true, 2, 3)
	db := env.db
	var pre []verifDoc
	var tomb []bool
	for i := 0; i < verifDocSlots(db); i++ {
		d := verifDocSlot(db, i)
		pre = append(pre, d)
		tomb = append(tomb, verifAnd(d.Present, d.Value == nil))
	}
	n, err := env.b.PurgeTombstones()
	verifAssert(err == nil, "purge succeeds")
	verifAssert(int(n) == verifCount(tomb...), "PurgeTombstones reports the number of tombstones")
	for i, p := range pre {
		post := verifGetDoc(db, p.Coll, p.Key)
		verifAssert(verifImplies(tomb[i], !post.Present), "every tombstone is removed, with or without xattrs, in every collection")
		verifAssert(verifImplies(verifAnd(p.Present, p.Value != nil), verifAnd(post.Present, verifBytesEq(post.Value, p.Value), post.Cas == p.Cas, verifBytesEq(post.Xattrs, p.Xattrs))), "no live document is touched by a purge")
	}
	verifReach("done")
}

// Update with a callback that is shown the current body and answers in one of
// four ways (new body / delete / cancel / error).
func stepUpdate(mask int) {
	k := kvBegin(mask)
	exp := verifU32("exp")
	newBody := verifBytes("new")
	verifAssume(newBody != nil)
	mode := verifChoose("cb", 6)
	cbExp := verifU32("cbExp") // an expiry of the callback's own (modes 4 and 5)
	if mode == 5 {
		verifAssume(k.pre.hasBody()) // expiry-only answer: keeps the current body
	}
	var shown []byte
	calls := 0
	cbErr := errors.New("callback refused")
	casOut, err := k.c.Update(k.key, exp, func(cur []byte) ([]byte, *uint32, bool, error) {
		shown = cur
		calls++
		switch mode {
		case 0:
			return newBody, nil, false, nil
		case 1:
			return nil, nil, true, nil
		case 2:
			return nil, nil, false, nil
		case 4:
			return newBody, &cbExp, false, nil
		case 5:
			return nil, &cbExp, false, nil
		}
		return nil, nil, false, cbErr
	})
	post := k.post()
	if k.want(pC01) {
		verifAssert(calls >= 1, "the callback is invoked")
		verifAssert(verifOr(verifAnd(k.pre.hasBody(), verifBytesEq(shown, k.pre.Value)), verifAnd(!k.pre.hasBody(), shown == nil)), "the callback is shown the current body (nil if there is none)")
	}
	switch mode {
	case 2:
		verifReach("cancelled")
		verifAssert(verifAnd(err == nil, casOut == 0, verifSameDB(k.env.db, k.snap)), "a cancelled Update changes nothing")
		return
	case 3:
		verifReach("callback-error")
		verifAssert(verifAnd(err == cbErr, verifSameDB(k.env.db, k.snap)), "an Update whose callback fails returns that error and changes nothing")
		return
	}
	if err != nil {
		k.failed("refused")
		if k.want(pC01) && (mode == 0 || mode == 4) {
			var tooBig sgbucket.DocTooBigErr
			verifAssert(errors.As(err, &tooBig), "an Update that writes a body succeeds (unless the body is too big)")
		}
		return
	}
	if k.want(pC01) {
		verifAssert(casOut == uint64(post.Cas), "returned CAS is the stored CAS")
	}
	k.mutated(post, true)
	if mode == 0 {
		verifReach("updated")
		k.liveWith(post, newBody, true, exp, false)
	} else if mode == 4 {
		k.liveWith(post, newBody, true, cbExp, false) // the callback's expiry wins
	} else if mode == 5 {
		k.liveWith(post, k.pre.Value, true, cbExp, false) // same body, the callback's expiry
	} else {
		verifReach("deleted")
		if k.want(pC01 | pC05) {
			verifAssert(k.pre.Present, "Update(delete) is applied only to an existing document")
		}
		k.tombstoned(post)
	}
}

func Harness_C01_update() { stepUpdate(pC01) }
func Harness_C05_update() { stepUpdate(pC05) }
func Harness_C17_update() { stepUpdate(pC17) }
func Harness_C08_update() { stepUpdate(pC08) }
