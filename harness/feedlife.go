//go:build verif

package rosmar

import (
	"context"
	"errors"
	"sync"

	sgbucket "github.com/couchbase/sg-bucket"
)

// lifeEnv: a registered bucket (real registry) with two handles and two collections,
// concrete data, deterministic clock: the quantifier here is over operation orders
// and schedules, not over document contents.
type lifeEnv struct {
	h1, h2   *Bucket
	c1, c2   *Collection // default collection through h1 / h2
	o1       *Collection // other collection through h1
	seen     []verifSeen
	seenOther []verifSeen
}

func lifeBegin(inMemory bool) *lifeEnv {
	cluster = &bucketRegistry{bucketCount: map[string]uint{}, buckets: map[string]*Bucket{}}
	hlc = &HybridLogicalClock{clock: &verifTickClock{}, highestTime: 0}
	url := InMemoryURL
	if !inMemory {
		verifFSSet(verifDiskDir, false)
		url = uriFromPath(verifDiskDir)
	}
	h1, err := OpenBucket(url, "b0", CreateNew)
	verifAssume(err == nil)
	h2, err := OpenBucket(url, "b0", CreateOrOpen)
	verifAssume(err == nil)
	le := &lifeEnv{h1: h1, h2: h2}
	le.c1 = h1.DefaultDataStore().(*Collection)
	le.c2 = h2.DefaultDataStore().(*Collection)
	ds, err := h1.NamedDataStore(sgbucket.DataStoreNameImpl{Scope: "sc", Collection: "c1"})
	verifAssume(err == nil)
	le.o1 = ds.(*Collection)
	return le
}

func (le *lifeEnv) callback(ev sgbucket.FeedEvent) bool {
	le.seen = append(le.seen, verifSeen{key: string(ev.Key), cas: ev.Cas, op: ev.Opcode})
	return true
}

func (le *lifeEnv) sawKey(key string) bool {
	for _, s := range le.seen {
		if s.key == key {
			return true
		}
	}
	return false
}

// C16: terminator ends exactly that feed; done channel closed once; no callback afterwards.
func Harness_C16_terminator() {
	le := lifeBegin(true)
	ctx := context.Background()
	term, done := make(chan bool), make(chan struct{})
	err := le.c2.StartDCPFeed(ctx, sgbucket.FeedArguments{ID: "f", Backfill: sgbucket.FeedNoBackfill, Terminator: term, DoneChan: done}, le.callback, nil)
	verifAssert(err == nil, "feed starts")
	term2, done2 := make(chan bool), make(chan struct{})
	var seen2 []string
	err = le.c1.StartDCPFeed(ctx, sgbucket.FeedArguments{ID: "g", Backfill: sgbucket.FeedNoBackfill, Terminator: term2, DoneChan: done2},
		func(ev sgbucket.FeedEvent) bool { seen2 = append(seen2, string(ev.Key)); return true }, nil)
	verifAssert(err == nil, "second feed starts")
	verifAssert(le.c1.SetRaw("k1", 0, nil, []byte("v")) == nil, "write succeeds")
	verifJoin()
	verifAssert(verifAnd(le.sawKey("k1"), len(seen2) == 1), "both running feeds get the mutation")
	close(term)
	verifJoin()
	verifAssert(verifDoneClosed(done), "closing the terminator ends the feed and closes its done channel")
	verifAssert(!verifDoneClosed(done2), "ending one feed does not end another")
	n := len(le.seen)
	verifAssert(le.c1.SetRaw("k2", 0, nil, []byte("v")) == nil, "write succeeds")
	verifJoin()
	verifAssert(len(le.seen) == n, "a terminated feed's callback is not invoked again")
	verifAssert(len(seen2) == 2, "a feed that should still be running keeps receiving mutations")
	close(term2)
	verifJoin()
	verifAssert(verifDoneClosed(done2), "second feed ends on its terminator")
	verifAssert(verifLiveThreads() == 0, "no feed goroutine is left")
	verifReach("done")
}

// C16: a dump feed delivers the snapshot and ends by itself.
func Harness_C16_dump() {
	le := lifeBegin(true)
	ctx := context.Background()
	verifAssert(le.c1.SetRaw("k1", 0, nil, []byte("v")) == nil, "write succeeds")
	done := make(chan struct{})
	err := le.c2.StartDCPFeed(ctx, sgbucket.FeedArguments{ID: "d", Backfill: 0, Dump: true, DoneChan: done}, le.callback, nil)
	verifAssert(err == nil, "feed starts")
	verifJoin()
	verifAssert(le.sawKey("k1"), "dump delivers the existing document")
	verifAssert(verifDoneClosed(done), "a finished dump closes its done channel")
	verifAssert(verifLiveThreads() == 0, "no feed goroutine is left after a dump")
	verifReach("done")
}

// C16: dropping another collection, or closing one of several handles, neither stops
// nor starves a feed that should still be running — whichever handle is used afterwards.
func Harness_C16_independence() {
	le := lifeBegin(true)
	ctx := context.Background()
	done := make(chan struct{})
	err := le.c2.StartDCPFeed(ctx, sgbucket.FeedArguments{ID: "f", Backfill: sgbucket.FeedNoBackfill, DoneChan: done}, le.callback, nil)
	verifAssert(err == nil, "feed starts")
	which := verifChoose("disturb", 3)
	switch which {
	case 0:
		verifAssert(le.h1.DropDataStore(sgbucket.DataStoreNameImpl{Scope: "sc", Collection: "c1"}) == nil, "drop of the other collection succeeds")
	case 1:
		le.h2.Close(ctx) // the handle that started the feed; h1 stays open
	case 2:
		// start and terminate another feed on the other collection
		t2 := make(chan bool)
		verifAssert(le.o1.StartDCPFeed(ctx, sgbucket.FeedArguments{ID: "o", Backfill: sgbucket.FeedNoBackfill, Terminator: t2}, func(sgbucket.FeedEvent) bool { return true }, nil) == nil, "other feed starts")
		close(t2)
	}
	verifJoin()
	verifAssert(!verifDoneClosed(done), "the feed is still running")
	verifAssert(le.c1.SetRaw("k1", 0, nil, []byte("v")) == nil, "write through the handle that did the drop/close-unrelated work succeeds")
	verifJoin()
	verifAssert(le.sawKey("k1"), "the running feed still receives mutations made through the other handle")
	// a new feed can still be started through the handle that dropped the collection
	done3 := make(chan struct{})
	err = le.c1.StartDCPFeed(ctx, sgbucket.FeedArguments{ID: "n", Backfill: sgbucket.FeedNoBackfill, DoneChan: done3}, func(sgbucket.FeedEvent) bool { return true }, nil)
	verifAssert(err == nil, "a new feed can be started afterwards")
	verifReach("done")
}

// C16/C20: deleting the bucket, or closing the last handle of an on-disk bucket, ends
// every feed, whichever handle started it, and leaves no goroutine behind.
func shutdownEndsFeeds(inMemory bool, del bool) {
	le := lifeBegin(inMemory)
	ctx := context.Background()
	d1, d2 := make(chan struct{}), make(chan struct{})
	verifAssert(le.c1.StartDCPFeed(ctx, sgbucket.FeedArguments{ID: "a", Backfill: sgbucket.FeedNoBackfill, DoneChan: d1}, le.callback, nil) == nil, "feed starts")
	verifAssert(le.c2.StartDCPFeed(ctx, sgbucket.FeedArguments{ID: "b", Backfill: sgbucket.FeedNoBackfill, DoneChan: d2}, le.callback, nil) == nil, "feed starts")
	// a feed on a collection that only the other handle has opened
	ds, err := le.h2.NamedDataStore(sgbucket.DataStoreNameImpl{Scope: "sc", Collection: "c2"})
	verifAssume(err == nil)
	d3 := make(chan struct{})
	verifAssert(ds.(*Collection).StartDCPFeed(ctx, sgbucket.FeedArguments{ID: "c", Backfill: sgbucket.FeedNoBackfill, DoneChan: d3}, le.callback, nil) == nil, "feed starts")
	verifJoin()
	if del {
		verifAssert(le.h1.CloseAndDelete(ctx) == nil, "CloseAndDelete succeeds")
	} else {
		le.h1.Close(ctx)
		le.h2.Close(ctx)
	}
	verifJoin()
	verifAssert(verifAnd(verifDoneClosed(d1), verifDoneClosed(d2), verifDoneClosed(d3)), "shutting the store down ends every feed, whichever handle started it")
	verifAssert(verifLiveThreads() == 0, "no feed goroutine is left once the store is shut down")
	verifReach("done")
}

func Harness_C16_deleteEndsFeeds()      { shutdownEndsFeeds(true, true) }
func Harness_C16_lastCloseEndsFeeds()   { shutdownEndsFeeds(false, false) }
func Harness_C20_deleteLeavesNothing()  { shutdownEndsFeeds(true, true) }
func Harness_C20_lastCloseLeavesNothing() { shutdownEndsFeeds(false, false) }

// ---------- C20: shutdown races (schedule explored) ----------

// afterShutdown: nothing is left running or locked.
func (le *lifeEnv) afterShutdown(what string) {
	verifAssert(verifLiveThreads() == 0, what+": no goroutine is left running or blocked once the store is shut down")
	// the bucket's own lock is free too: closing the remaining handles returns
	le.h1.Close(context.Background())
	le.h2.Close(context.Background())
	// locks are free: the registry and a fresh bucket are usable
	b, err := OpenBucket(InMemoryURL, "other", CreateOrOpen)
	verifAssert(err == nil, what+": other buckets can still be opened (no lock left held)")
	if err == nil {
		verifAssert(verifProbe(b, "x") == nil, what+": other buckets keep working")
	}
}

func raceCloseVsWriter(inMemory bool, del bool) {
	le := lifeBegin(inMemory)
	ctx := context.Background()
	var werr error
	verifExplore(verifPreemptions())
	go func() { werr = le.c2.SetRaw("k", 0, nil, []byte("v")) }()
	go func() {
		if del {
			_ = le.h1.CloseAndDelete(ctx)
		} else {
			le.h1.Close(ctx)
			le.h2.Close(ctx)
		}
	}()
	verifJoin()
	// the writer either completed before the shutdown or lost the race with an error
	if werr == nil {
		verifReach("writer-won")
	} else {
		verifReach("writer-lost")
	}
	le.afterShutdown("close vs writer")
}

func Harness_C20_deleteVsWriter()    { raceCloseVsWriter(true, true) }
func Harness_C20_lastCloseVsWriter() { raceCloseVsWriter(false, false) }

func Harness_C20_deleteVsFeedStart() {
	le := lifeBegin(true)
	ctx := context.Background()
	done := make(chan struct{})
	var ferr error
	verifExplore(verifPreemptions())
	go func() {
		ferr = le.c2.StartDCPFeed(ctx, sgbucket.FeedArguments{ID: "f", Backfill: 0, DoneChan: done}, le.callback, nil)
	}()
	go func() { _ = le.h1.CloseAndDelete(ctx) }()
	verifJoin()
	if ferr == nil {
		verifReach("feed-started")
	} else {
		verifReach("feed-refused")
	}
	le.afterShutdown("delete vs feed start")
}

// the expiry timer has fired and its goroutine runs concurrently with the shutdown
func Harness_C20_deleteVsExpiryTimer() {
	le := lifeBegin(true)
	ctx := context.Background()
	verifAssert(le.c1.SetRaw("k", 2000000000, nil, []byte("v")) == nil, "write with an expiry succeeds")
	verifExplore(verifPreemptions())
	n := verifFireTimers()
	verifAssert(n == 1, "the expiry timer was armed")
	go func() { _ = le.h1.CloseAndDelete(ctx) }()
	verifJoin()
	verifReach("done")
	le.afterShutdown("delete vs expiry timer")
}

func Harness_C20_dropVsWriter() {
	le := lifeBegin(true)
	var werr, derr error
	verifExplore(verifPreemptions())
	go func() { werr = le.o1.SetRaw("k", 0, nil, []byte("v")) }()
	go func() { derr = le.h2.DropDataStore(sgbucket.DataStoreNameImpl{Scope: "sc", Collection: "c1"}) }()
	verifJoin()
	verifAssert(derr == nil, "drop succeeds")
	_ = werr
	verifAssert(verifLiveThreads() == 0, "drop vs writer: both calls return")
	verifAssert(verifProbe(le.h1, "x") == nil, "drop vs writer: the bucket keeps working (no lock left held)")
	verifReach("done")
}

// C13-C: an open racing a close of an already-created bucket
func Harness_C13_openVsClose() {
	le := lifeBegin(true)
	ctx := context.Background()
	var b3 *Bucket
	var oerr error
	verifExplore(verifPreemptions())
	go func() { b3, oerr = OpenBucket(InMemoryURL, "b0", CreateOrOpen) }()
	go func() { le.h2.Close(ctx) }()
	verifJoin()
	verifAssert(verifLiveThreads() == 0, "open vs close: both calls return")
	verifAssert(oerr == nil, "opening an existing bucket succeeds while another handle is being closed")
	if oerr == nil {
		verifAssert(verifProbe(b3, "x") == nil, "the new handle works")
	}
	verifAssert(verifProbe(le.h1, "y") == nil, "the untouched handle keeps working")
	verifAssert(errors.Is(verifProbe(le.h2, "z"), ErrBucketClosed), "the closed handle fails with the bucket-closed error")
	verifReach("done")
}

func Harness_C20_lastCloseVsExpiryTimer() {
	le := lifeBegin(false)
	ctx := context.Background()
	verifAssert(le.c1.SetRaw("k", 2000000000, nil, []byte("v")) == nil, "write with an expiry succeeds")
	verifExplore(verifPreemptions())
	n := verifFireTimers()
	verifAssert(n == 1, "the expiry timer was armed")
	go func() {
		le.h1.Close(ctx)
		le.h2.Close(ctx)
	}()
	verifJoin()
	verifReach("done")
	le.afterShutdown("last close vs expiry timer")
}

// C15: a checkpointed feed that is stopped while a writer is active and then
// resumed delivers, over both runs, the final version of every document.
func Harness_C15_stopResume() {
	le := lifeBegin(true)
	// a clock that stands still: consecutive writes get consecutive CAS values (the
	// case in which an off-by-one in the resume point skips a mutation)
	hlc.clock = &verifStuckClock{}
	ctx := context.Background()
	term := make(chan bool)
	args := sgbucket.FeedArguments{ID: "f", Backfill: sgbucket.FeedResume, CheckpointPrefix: "cp", Terminator: term}
	verifAssert(le.c1.SetRaw("k0", 0, nil, []byte("v0")) == nil, "write succeeds")
	verifAssert(le.c2.StartDCPFeed(ctx, args, le.callback, nil) == nil, "feed starts in resume mode")
	verifExplore(verifPreemptions() - 1)
	go func() {
		_ = le.c1.SetRaw("k1", 0, nil, []byte("v1"))
		_ = le.c1.SetRaw("k2", 0, nil, []byte("v2"))
	}()
	go func() { close(term) }()
	verifJoin()
	// the persisted checkpoint never exceeds what the run delivered
	var maxSeen uint64
	for _, s := range le.seen {
		if s.cas > maxSeen {
			maxSeen = s.cas
		}
	}
	var cp checkpoint
	if _, err := le.c1.Get("cp:f", &cp); err == nil {
		verifAssert(cp.LastSeq <= maxSeen, "the persisted checkpoint never exceeds the highest CAS the feed delivered")
		verifReach("checkpoint-written")
	}
	// second run
	term2 := make(chan bool)
	args.Terminator = term2
	verifAssert(le.c2.StartDCPFeed(ctx, args, le.callback, nil) == nil, "feed restarts in resume mode")
	verifJoin()
	for _, key := range []string{"k0", "k1", "k2"} {
		d := verifGetDoc(le.h1.sqliteDB, 1, key)
		found := false
		for _, s := range le.seen {
			if s.key == key && s.cas == uint64(d.Cas) {
				found = true
			}
		}
		verifAssert(found, "taken together the runs deliver the final version of every document")
	}
	close(term2)
	verifJoin()
	verifReach("done")
}

type verifStuckClock struct{}

func (*verifStuckClock) getTime() uint64 { return 1 << 20 }

// Close of a handle racing StartDCPFeed through the same handle
func Harness_C20_closeVsFeedStartSameHandle() {
	le := lifeBegin(true)
	ctx := context.Background()
	var ferr error
	verifExplore(verifPreemptions())
	go func() {
		ferr = le.c2.StartDCPFeed(ctx, sgbucket.FeedArguments{ID: "f", Backfill: 0}, le.callback, nil)
	}()
	go func() { le.h2.Close(ctx) }()
	verifJoin()
	if ferr == nil {
		verifReach("feed-started")
	} else {
		verifReach("feed-refused")
	}
	// the other handle keeps working, and nothing is left locked
	verifAssert(verifProbe(le.h1, "x") == nil, "close vs feed start: the other handle keeps working (no lock left held)")
	verifAssert(le.h1.CloseAndDelete(ctx) == nil, "close vs feed start: the bucket can still be deleted")
	verifJoin()
	le.afterShutdown("close vs feed start")
}

// C16: a multi-collection feed (Bucket.StartDCPFeed with Scopes) delivers each collection's
// mutations with that collection's id and closes its done channel once, after every
// per-collection feed has ended.
func Harness_C16_multiCollection() {
	le := lifeBegin(true)
	ctx := context.Background()
	done := make(chan struct{})
	term := make(chan bool)
	var got []uint32
	args := sgbucket.FeedArguments{ID: "m", Backfill: sgbucket.FeedNoBackfill, Terminator: term, DoneChan: done,
		Scopes: map[string][]string{"_default": {"_default"}, "sc": {"c1"}}}
	var gotMu sync.Mutex // the per-collection feeds call back from their own goroutines
	err := le.h2.StartDCPFeed(ctx, args, func(ev sgbucket.FeedEvent) bool {
		gotMu.Lock()
		got = append(got, ev.CollectionID)
		gotMu.Unlock()
		return true
	}, nil)
	verifAssert(err == nil, "multi-collection feed starts")
	verifAssert(le.c1.SetRaw("k1", 0, nil, []byte("v")) == nil, "write to the default collection succeeds")
	verifAssert(le.o1.SetRaw("k2", 0, nil, []byte("v")) == nil, "write to the named collection succeeds")
	verifJoin()
	verifAssert(len(got) == 2, "one event per mutation of each requested collection")
	if len(got) == 2 {
		verifAssert(verifOr(verifAnd(got[0] == le.c1.GetCollectionID(), got[1] == le.o1.GetCollectionID()), verifAnd(got[1] == le.c1.GetCollectionID(), got[0] == le.o1.GetCollectionID())),
			"each event carries the id of the collection it belongs to")
	}
	verifAssert(!verifDoneClosed(done), "the feed is still running")
	close(term)
	verifJoin()
	verifAssert(verifDoneClosed(done), "the coalesced done channel is closed once every per-collection feed has ended")
	n := len(got)
	verifAssert(le.c1.SetRaw("k3", 0, nil, []byte("v")) == nil, "write succeeds")
	verifJoin()
	verifAssert(len(got) == n, "a terminated feed's callback is not invoked again")
	verifAssert(verifLiveThreads() == 0, "no feed goroutine is left")
	// unknown collection is refused
	bad := sgbucket.FeedArguments{ID: "x", Backfill: sgbucket.FeedNoBackfill, Scopes: map[string][]string{"sc": {"nope"}}}
	verifAssert(le.h2.StartDCPFeed(ctx, bad, func(sgbucket.FeedEvent) bool { return true }, nil) != nil, "a feed on an unknown collection is refused")
	verifReach("done")
}

// C11: dropping a collection removes exactly its own documents and feeds; re-creating it yields an empty collection.
func Harness_C11_dropRecreate() {
	le := lifeBegin(true)
	name := sgbucket.DataStoreNameImpl{Scope: "sc", Collection: "c1"}
	verifAssert(le.c1.SetRaw("k", 0, nil, []byte("default")) == nil, "write succeeds")
	verifAssert(le.o1.SetRaw("k", 0, nil, []byte("named")) == nil, "write succeeds")
	done := make(chan struct{})
	verifAssert(le.o1.StartDCPFeed(context.Background(), sgbucket.FeedArguments{ID: "o", Backfill: sgbucket.FeedNoBackfill, DoneChan: done}, func(sgbucket.FeedEvent) bool { return true }, nil) == nil, "feed starts")
	verifJoin()
	verifAssert(le.h1.DropDataStore(name) == nil, "drop succeeds")
	verifJoin()
	verifAssert(verifDoneClosed(done), "dropping a collection ends its feeds")
	v, _, err := le.c2.GetRaw("k")
	verifAssert(verifAnd(err == nil, string(v) == "default"), "the same key in another collection is untouched by the drop")
	ds, err := le.h2.NamedDataStore(name)
	verifAssert(err == nil, "the collection can be re-created")
	if err == nil {
		_, _, err = ds.(*Collection).GetRaw("k")
		verifAssert(isMissing(err), "a re-created collection is empty")
		verifAssert(ds.(*Collection).SetRaw("k", 0, nil, []byte("again")) == nil, "and usable")
	}
	v, _, err = le.c1.GetRaw("k")
	verifAssert(verifAnd(err == nil, string(v) == "default"), "the other collection is still intact")
	verifReach("done")
}

// C20: a view update (foreground, or the background one of stale=updateAfter) races the
// shutdown: the query returns rows or an error, its goroutines end, nothing stays locked.
func raceShutdownVsView(del bool, background bool) {
	le := lifeBegin(true)
	ctx := context.Background()
	verifMapSource(verifMapA)
	verifAssert(le.c2.PutDDoc(ctx, "dd", &sgbucket.DesignDoc{Views: sgbucket.ViewMap{"v": sgbucket.ViewDef{Map: verifMapA}}}) == nil, "PutDDoc succeeds")
	verifAssert(le.c1.SetRaw("k", 0, nil, []byte(`{"a":1}`)) == nil, "write succeeds")
	var params map[string]any
	if background {
		params = map[string]any{"stale": "updateAfter"}
	}
	var verr error
	// the query itself runs three internal goroutines (reader, mapper, closer): one preemption
	// (two in the thorough tier) on top of the free choices at every blocking point
	verifExplore(verifPreemptions() - 1)
	go func() { _, verr = le.c2.View(ctx, "dd", "v", params) }()
	go func() {
		if del {
			_ = le.h1.CloseAndDelete(ctx)
		} else {
			le.h2.Close(ctx) // the handle the query runs on
		}
	}()
	verifJoin()
	if verr == nil {
		verifReach("query-won")
	} else {
		verifReach("query-lost")
	}
	if del {
		le.afterShutdown("shutdown vs view update")
	} else {
		verifAssert(verifLiveThreads() == 0, "close vs view update: every goroutine of the query has ended")
		verifAssert(verifProbe(le.h1, "x") == nil, "close vs view update: the other handle keeps working (no lock left held)")
	}
}

func Harness_C20_deleteVsViewUpdate()           { raceShutdownVsView(true, false) }
func Harness_C20_deleteVsBackgroundViewUpdate() { raceShutdownVsView(true, true) }
func Harness_C20_closeVsViewUpdate()            { raceShutdownVsView(false, false) }

// C15, several collections: feeds of different collections that share a checkpoint prefix
// and ID (what Bucket.StartDCPFeed creates) resume independently: a collection's run is not
// cut short by what another collection's feed has checkpointed.
func Harness_C15_perCollection() {
	le := lifeBegin(true)
	ctx := context.Background()
	// the named collection's document is older (lower CAS) than the default collection's
	verifAssert(le.o1.SetRaw("a", 0, nil, []byte("va")) == nil, "write succeeds")
	verifAssert(le.c1.SetRaw("b", 0, nil, []byte("vb")) == nil, "write succeeds")
	var seenO []verifSeen
	cbO := func(ev sgbucket.FeedEvent) bool {
		seenO = append(seenO, verifSeen{key: string(ev.Key), cas: ev.Cas, op: ev.Opcode})
		return true
	}
	runFeed := func(c *Collection, cb sgbucket.FeedEventCallbackFunc) {
		term := make(chan bool)
		args := sgbucket.FeedArguments{ID: "f", Backfill: sgbucket.FeedResume, CheckpointPrefix: "cp", Terminator: term}
		verifAssert(c.StartDCPFeed(ctx, args, cb, nil) == nil, "feed starts in resume mode")
		verifJoin()
		close(term)
		verifJoin()
	}
	// either collection's feed may run (and checkpoint) first
	if verifBool("defaultFirst") {
		runFeed(le.c2, le.callback)
		runFeed(le.o1, cbO)
	} else {
		runFeed(le.o1, cbO)
		runFeed(le.c2, le.callback)
	}
	da := verifGetDoc(le.h1.sqliteDB, int64(le.o1.GetCollectionID())+1, "a")
	db := verifGetDoc(le.h1.sqliteDB, 1, "b")
	foundA, foundB := false, false
	for _, s := range seenO {
		foundA = foundA || (s.key == "a" && s.cas == uint64(da.Cas))
	}
	for _, s := range le.seen {
		foundB = foundB || (s.key == "b" && s.cas == uint64(db.Cas))
	}
	verifAssert(foundA, "the named collection's feed delivers its document whatever another collection's feed checkpointed")
	verifAssert(foundB, "the default collection's feed delivers its document whatever another collection's feed checkpointed")
	// each checkpoint is bounded by what that collection's feed delivered
	var maxO uint64
	for _, s := range seenO {
		if s.cas > maxO {
			maxO = s.cas
		}
	}
	var cp checkpoint
	if _, err := le.o1.Get("cp:f", &cp); err == nil {
		verifAssert(cp.LastSeq <= maxO, "the named collection's checkpoint never exceeds the highest CAS its feed delivered")
	}
	verifAssert(verifLiveThreads() == 0, "no feed goroutine is left")
	verifReach("done")
}

// the same through the multi-collection entry point: stop, write to both collections, restart
func Harness_C15_multiCollectionResume()             { multiCollectionResume(0) }
func Harness_C15_multiCollectionResumeStopSched()    { multiCollectionResume(1) }
func Harness_C15_multiCollectionResumeRestartSched_T() { multiCollectionResume(2) }

// sched: the order in which the per-collection feeds stop (and write their checkpoints) and
// restart is explored, not just the deterministic one
func multiCollectionResume(sched int) {
	le := lifeBegin(true)
	ctx := context.Background()
	var got []verifSeen
	var gotMu sync.Mutex // the per-collection feeds call back from their own goroutines
	cb := func(ev sgbucket.FeedEvent) bool {
		gotMu.Lock()
		got = append(got, verifSeen{key: string(ev.Key), cas: ev.Cas, op: ev.Opcode})
		gotMu.Unlock()
		return true
	}
	start := func() chan bool {
		term := make(chan bool)
		args := sgbucket.FeedArguments{ID: "m", Backfill: sgbucket.FeedResume, CheckpointPrefix: "cp", Terminator: term,
			Scopes: map[string][]string{"_default": {"_default"}, "sc": {"c1"}}}
		verifAssert(le.h2.StartDCPFeed(ctx, args, cb, nil) == nil, "multi-collection feed starts in resume mode")
		return term
	}
	verifAssert(le.o1.SetRaw("a", 0, nil, []byte("va")) == nil, "write succeeds")
	term := start()
	verifJoin()
	if sched == 1 {
		verifExplore(verifPreemptions() - 1) // every order in which the per-collection feeds stop and checkpoint
	}
	close(term)
	verifJoin()
	if sched == 1 {
		verifExplore(-1)
	}
	// while the feed is down: a write to each collection, in either order
	if verifBool("namedFirst") {
		verifAssert(le.o1.SetRaw("a2", 0, nil, []byte("v")) == nil, "write succeeds")
		verifAssert(le.c1.SetRaw("b2", 0, nil, []byte("v")) == nil, "write succeeds")
	} else {
		verifAssert(le.c1.SetRaw("b2", 0, nil, []byte("v")) == nil, "write succeeds")
		verifAssert(le.o1.SetRaw("a2", 0, nil, []byte("v")) == nil, "write succeeds")
	}
	if sched == 2 {
		verifExplore(1) // ... or in which they restart, backfill and checkpoint (one preemption: two exceed the path limit)
	}
	term = start()
	verifJoin()
	if sched == 2 {
		verifExplore(-1)
	}
	for _, key := range []string{"a", "a2", "b2"} {
		found := false
		for _, s := range got {
			found = found || s.key == key
		}
		verifAssert(found, "taken together the runs deliver every document of every requested collection")
	}
	close(term)
	verifJoin()
	verifAssert(verifLiveThreads() == 0, "no feed goroutine is left")
	verifReach("done")
}

// C11: a drop also removes the collection's design documents and leaves other collections'
// (same design-doc name, same collection name in another scope) alone; a handle that had the
// collection open before another handle dropped it gets the re-created, empty, usable
// collection when it asks for it again.
func Harness_C11_dropRecreateOtherHandle() {
	le := lifeBegin(true)
	ctx := context.Background()
	name := sgbucket.DataStoreNameImpl{Scope: "sc", Collection: "c1"}
	other := sgbucket.DataStoreNameImpl{Scope: "sc2", Collection: "c1"}
	ds, err := le.h1.NamedDataStore(other)
	verifAssume(err == nil)
	o2 := ds.(*Collection)
	ds, err = le.h2.NamedDataStore(name) // the second handle has the collection open (cached) too
	verifAssume(err == nil)
	viaH2 := ds.(*Collection)
	verifMapSource(verifMapA)
	dd := &sgbucket.DesignDoc{Views: sgbucket.ViewMap{"v": sgbucket.ViewDef{Map: verifMapA}}}
	verifAssert(le.o1.PutDDoc(ctx, "dd", dd) == nil, "PutDDoc succeeds")
	verifAssert(le.c1.PutDDoc(ctx, "dd", dd) == nil, "PutDDoc succeeds")
	verifAssert(le.o1.SetRaw("k", 0, nil, []byte("named")) == nil, "write succeeds")
	verifAssert(o2.SetRaw("k", 0, nil, []byte("otherscope")) == nil, "write succeeds")
	verifAssert(viaH2.SetRaw("k2", 0, nil, []byte("h2")) == nil, "write through the second handle succeeds")
	verifAssert(le.h1.DropDataStore(name) == nil, "drop succeeds")
	verifJoin()
	v, _, err := o2.GetRaw("k")
	verifAssert(verifAnd(err == nil, string(v) == "otherscope"), "a collection of the same name in another scope is untouched by the drop")
	_, err = le.c1.GetDDoc("dd")
	verifAssert(err == nil, "another collection's design document of the same name survives the drop")
	// re-create through the handle that did not drop it
	ds, err = le.h2.NamedDataStore(name)
	verifAssert(err == nil, "the collection can be re-created through the other handle")
	if err != nil {
		return
	}
	again := ds.(*Collection)
	_, _, err = again.GetRaw("k")
	verifAssert(isMissing(err), "a re-created collection is empty")
	_, err = again.GetDDoc("dd")
	verifAssert(err != nil, "the dropped collection's design documents are gone")
	verifAssert(again.SetRaw("k3", 0, nil, []byte("new")) == nil, "the re-created collection accepts writes")
	ds, err = le.h1.NamedDataStore(name)
	verifAssert(err == nil, "the first handle opens the re-created collection")
	if err == nil {
		v, _, err = ds.(*Collection).GetRaw("k3")
		verifAssert(verifAnd(err == nil, string(v) == "new"), "both handles address the same re-created collection")
	}
	verifReach("done")
}

// C11/C16: the drop ends the collection's feeds whichever handle performs it, also one that
// never opened the collection itself.
func Harness_C11_dropByOtherHandleEndsFeeds() {
	le := lifeBegin(true)
	name := sgbucket.DataStoreNameImpl{Scope: "sc", Collection: "c1"}
	done := make(chan struct{})
	doneDefault := make(chan struct{})
	n := 0
	verifAssert(le.o1.StartDCPFeed(context.Background(), sgbucket.FeedArguments{ID: "o", Backfill: sgbucket.FeedNoBackfill, DoneChan: done}, func(sgbucket.FeedEvent) bool { n++; return true }, nil) == nil, "feed starts")
	verifAssert(le.c1.StartDCPFeed(context.Background(), sgbucket.FeedArguments{ID: "d", Backfill: sgbucket.FeedNoBackfill, DoneChan: doneDefault}, le.callback, nil) == nil, "feed starts")
	verifJoin()
	verifAssert(le.h2.DropDataStore(name) == nil, "drop through a handle that never opened the collection succeeds")
	verifJoin()
	verifAssert(verifDoneClosed(done), "dropping a collection ends its feeds, whichever handle drops it")
	verifAssert(!verifDoneClosed(doneDefault), "another collection's feed keeps running")
	verifAssert(le.c2.SetRaw("k", 0, nil, []byte("v")) == nil, "write succeeds")
	verifJoin()
	verifAssert(le.sawKey("k"), "another collection's feed still delivers")
	verifAssert(n == 0, "the dropped collection's feed saw nothing")
	verifReach("done")
}
