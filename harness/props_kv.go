//go:build verif

package rosmar

// Harness entry points: one per (property, entry point).

func Harness_C01_addRaw()   { stepAdd(pC01, true) }
func Harness_C01_setRaw()   { stepSet(pC01) }
func Harness_C01_writeCas() { stepWriteCas(pC01) }
func Harness_C01_remove()   { stepRemove(pC01, true) }
func Harness_C01_delete()   { stepRemove(pC01, false) }
func Harness_C01_touch()    { stepTouch(pC01) }
func Harness_C01_incr()     { stepIncr(pC01) }

func Harness_C02_writeCas() { stepWriteCas(pC02) }
func Harness_C02_remove()   { stepRemove(pC02, true) }

func Harness_C04_stampAdd()      { stepAdd(pC04, true) }
func Harness_C04_stampSet()      { stepSet(pC04) }
func Harness_C04_stampWriteCas() { stepWriteCas(pC04) }
func Harness_C04_stampRemove()   { stepRemove(pC04, false) }
func Harness_C04_stampIncr()     { stepIncr(pC04) }

func Harness_C05_addRaw()   { stepAdd(pC05, true) }
func Harness_C05_setRaw()   { stepSet(pC05) }
func Harness_C05_writeCas() { stepWriteCas(pC05) }
func Harness_C05_remove()   { stepRemove(pC05, true) }
func Harness_C05_delete()   { stepRemove(pC05, false) }
func Harness_C05_incr()     { stepIncr(pC05) }

func Harness_C06_addRaw()   { stepAdd(pC06, true) }
func Harness_C06_add()      { stepAdd(pC06, false) }
func Harness_C06_writeCas() { stepWriteCas(pC06) }

func Harness_C07_setRaw()   { stepSet(pC07) }
func Harness_C07_writeCas() { stepWriteCas(pC07) }
func Harness_C07_incr()     { stepIncr(pC07) }

func Harness_C11_addRaw()   { stepAdd(pC11, true) }
func Harness_C11_setRaw()   { stepSet(pC11) }
func Harness_C11_writeCas() { stepWriteCas(pC11) }
func Harness_C11_delete()   { stepRemove(pC11, false) }
func Harness_C11_touch()    { stepTouch(pC11) }
func Harness_C11_incr()     { stepIncr(pC11) }

func Harness_C17_addRaw()   { stepAdd(pC17, true) }
func Harness_C17_setRaw()   { stepSet(pC17) }
func Harness_C17_writeCas() { stepWriteCas(pC17) }
func Harness_C17_remove()   { stepRemove(pC17, true) }
func Harness_C17_touch()    { stepTouch(pC17) }
func Harness_C17_incr()     { stepIncr(pC17) }

// C04: the stamp clause on the xattr entry points and Update
func Harness_C04_stampUpdate()          { stepUpdate(pC04) }
func Harness_C04_stampSetXattrs()       { stepXattr(pC04, xSetXattrs) }
func Harness_C04_stampUpdateXattrs()    { stepXattr(pC04, xUpdateXattrs) }
func Harness_C04_stampDeleteWithXattrs() { stepXattr(pC04, xDeleteWithXattrs) }
func Harness_C04_stampDeleteSubDocPaths() { stepXattr(pC04, xDeleteSubDocPaths) }
