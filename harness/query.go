//go:build verif

package rosmar

import (
	"context"

	sgbucket "github.com/couchbase/sg-bucket"
)

// expected JSON row of `SELECT id, body, xattrs FROM $_keyspace` for a live document
func verifQueryRow(d verifDoc) []byte {
	r := verifConcat([]byte(`{"id":`), []byte(d.Key))
	r = verifConcat(r, []byte(`,"body":`))
	r = verifConcat(r, d.Value)
	if d.Xattrs != nil {
		r = verifConcat(r, []byte(`,"xattrs":`))
		r = verifConcat(r, d.Xattrs)
	}
	return verifConcat(r, []byte(`}`))
}

// C19: a query over $_keyspace ranges over exactly the live documents of its collection.
func stepQuery(inMemory bool) {
	env := verifWorld(inMemory, 2, 2)
	c := env.colls[0]
	it, err := c.Query(sgbucket.SQLiteLanguage, `SELECT id, body, xattrs FROM $_keyspace`, nil, sgbucket.RequestPlus, true)
	verifAssert(err == nil, "query succeeds")
	if err != nil {
		return
	}
	var rows [][]byte
	for i := 0; i < 5; i++ {
		r := it.NextBytes()
		if r == nil {
			break
		}
		rows = append(rows, r)
	}
	verifAssert(it.Close() == nil, "iterator closes cleanly")
	var live []bool
	var docs []verifDoc
	for i := 0; i < verifDocSlots(env.db); i++ {
		d := verifDocSlot(env.db, i)
		docs = append(docs, d)
		live = append(live, verifAnd(d.Present, d.Coll == 1, d.Value != nil))
	}
	verifAssert(len(rows) == verifCount(live...), "one row per live document of this collection: no tombstones, no other collection's documents, none twice")
	for _, r := range rows {
		m := false
		for i, d := range docs {
			m = verifOr(m, verifAnd(live[i], verifBytesEq(r, verifQueryRow(d))))
		}
		verifAssert(m, "each row exposes the current id, body and xattrs of a live document of this collection")
	}
	if len(rows) == 2 {
		r0, r1 := rows[0], rows[1]
		e0, e1 := verifQueryRow(docs[0]), verifQueryRow(docs[1])
		verifAssert(verifOr(verifAnd(verifBytesEq(r0, e0), verifBytesEq(r1, e1)), verifAnd(verifBytesEq(r0, e1), verifBytesEq(r1, e0))), "no document is returned twice")
		verifReach("two-rows")
	}
	if len(rows) == 0 {
		verifReach("no-rows")
	}
}

func Harness_C19_queryInMemory() { stepQuery(true) }
func Harness_C19_queryOnDisk()   { stepQuery(false) }

// C19: filter on id
func Harness_C19_queryById() {
	env := verifWorld(true, 2, 2)
	c := env.colls[0]
	key := verifKey("key")
	it, err := c.Query(sgbucket.SQLiteLanguage, `SELECT id, body, xattrs FROM $_keyspace WHERE id = $k`, map[string]any{"k": key}, sgbucket.RequestPlus, true)
	verifAssert(err == nil, "query succeeds")
	if err != nil {
		return
	}
	r := it.NextBytes()
	d := verifGetDoc(env.db, 1, key)
	if r == nil {
		verifReach("missing")
		verifAssert(!d.hasBody(), "a live document of the collection is found by id")
	} else {
		verifReach("found")
		verifAssert(verifAnd(d.hasBody(), verifBytesEq(r, verifQueryRow(d))), "the row found by id is the live document with that key in this collection")
		verifAssert(it.NextBytes() == nil, "exactly one row for one id")
	}
}

// C19: a NULL column is left out of the row, wherever it stands in the select list.
func Harness_C19_queryNullFirstColumn() {
	inMemory := verifChoose("mem", 2) == 0
	env := verifWorld(inMemory, 2, 2)
	c := env.colls[0]
	it, err := c.Query(sgbucket.SQLiteLanguage, `SELECT xattrs, id FROM $_keyspace`, nil, sgbucket.RequestPlus, true)
	verifAssert(err == nil, "query succeeds")
	if err != nil {
		return
	}
	var rows [][]byte
	for i := 0; i < 5; i++ {
		r := it.NextBytes()
		if r == nil {
			break
		}
		rows = append(rows, r)
	}
	verifAssert(it.Close() == nil, "iterator closes cleanly")
	var live []bool
	var want [][]byte
	for i := 0; i < verifDocSlots(env.db); i++ {
		d := verifDocSlot(env.db, i)
		live = append(live, verifAnd(d.Present, d.Coll == 1, d.Value != nil))
		r := []byte(`{`)
		if d.Xattrs != nil {
			r = verifConcat(verifConcat(r, []byte(`"xattrs":`)), d.Xattrs)
			r = verifConcat(r, []byte(`,`))
		}
		r = verifConcat(verifConcat(r, []byte(`"id":`)), []byte(d.Key))
		want = append(want, verifConcat(r, []byte(`}`)))
	}
	verifAssert(len(rows) == verifCount(live...), "one row per live document of this collection")
	for _, r := range rows {
		m := false
		for i := range want {
			m = verifOr(m, verifAnd(live[i], verifBytesEq(r, want[i])))
		}
		verifAssert(m, "each row holds exactly the non-NULL columns of a live document")
	}
	if len(rows) > 0 {
		verifReach("rows")
	}
}

// C19: the iterator's Next / One / Close over the same result: Next parses the first row,
// One does the same and closes, an empty result is ErrNoRows, on both iterator kinds.
func Harness_C19_iteratorNextOne() {
	inMemory := verifChoose("mem", 2) == 0
	env := verifWorld(inMemory, 2, 2)
	c := env.colls[0]
	ctx := context.Background()
	const q = `SELECT body FROM $_keyspace`
	var live, valid []bool
	var want [][]byte
	for i := 0; i < verifDocSlots(env.db); i++ {
		d := verifDocSlot(env.db, i)
		live = append(live, verifAnd(d.Present, d.Coll == 1, d.Value != nil))
		r := verifConcat(verifConcat([]byte(`{"body":`), d.Value), []byte(`}`))
		want = append(want, r)
		valid = append(valid, verifJSONValid(r))
	}
	n := verifCount(live...)
	it, err := c.Query(sgbucket.SQLiteLanguage, q, nil, sgbucket.RequestPlus, true)
	verifAssert(err == nil, "query succeeds")
	if err != nil {
		return
	}
	var v any
	ok := it.Next(ctx, &v)
	if ok {
		m := false
		for i := range want {
			m = verifOr(m, verifAnd(live[i], valid[i], verifBytesEq(verifAnyJSON(v), verifJSONCanon(want[i]))))
		}
		verifAssert(m, "Next yields the parsed row of a live document of this collection")
		verifReach("next-row")
	} else {
		bad := false
		for i := range want {
			bad = verifOr(bad, verifAnd(live[i], !valid[i]))
		}
		verifAssert(verifOr(n == 0, bad), "Next fails only at the end of the result or on a row that is not JSON")
		if n == 0 {
			verifAssert(it.Close() == nil, "an exhausted iterator closes cleanly")
			verifReach("next-none")
		}
	}
	it2, err := c.Query(sgbucket.SQLiteLanguage, q, nil, sgbucket.RequestPlus, true)
	verifAssert(err == nil, "query succeeds")
	if err != nil {
		return
	}
	var v2 any
	oneErr := it2.One(ctx, &v2)
	verifAssert((oneErr == nil) == ok, "One succeeds exactly when Next yields a first row")
	if oneErr == nil {
		verifAssert(verifBytesEq(verifAnyJSON(v2), verifAnyJSON(v)), "One yields the same first row as Next")
	} else {
		verifAssert(oneErr == sgbucket.ErrNoRows, "One without a row is ErrNoRows")
	}
	// One closed the iterator: the connection is free again (in-memory buckets have just one)
	verifAssert(verifProbe(env.b, "probe") == nil, "after One the bucket is usable (iterator closed)")
}
