//go:build verif

package rosmar

import (
	"database/sql"
	"sync"

	sgbucket "github.com/couchbase/sg-bucket"
)

// verifDoc is a raw view of one row of the documents table.
type verifDoc struct {
	Present   bool
	ID, Coll  int64
	Key       string
	Cas, Exp  int64
	Xattrs    []byte // nil = NULL
	IsJSON    int64
	Value     []byte // nil = NULL
	Tombstone int64
	Rev       int64
}

func (d verifDoc) hasBody() bool { return verifAnd(d.Present, d.Value != nil) }

type verifEnv struct {
	db    *sql.DB
	b     *Bucket
	colls []*Collection
	U     []string // xattr-name universe (closed world)
}

func verifCollName(k int) sgbucket.DataStoreNameImpl {
	if k == 0 {
		return defaultDataStoreName
	}
	return sgbucket.DataStoreNameImpl{Scope: "sc", Collection: "c" + string(rune('0'+k))}
}

// verifBucketOn builds a Bucket handle over a database without going through OpenBucket.
func verifBucketOn(db *sql.DB, name string, inMemory bool) *Bucket {
	b := &Bucket{
		url:             "rosmar:/verif/" + name,
		name:            name,
		collections:     make(collectionsMap),
		collectionFeeds: make(map[sgbucket.DataStoreNameImpl][]*dcpFeed),
		mutex:           &sync.Mutex{},
		sqliteDB:        db,
		inMemory:        inMemory,
		serial:          1,
	}
	b.expManager = newExpirationManager(verifExpiryFunc(b))
	return b
}

// The symbolic executor never fires a timer by itself (harnesses fire it
// explicitly); natively a timer armed for a past instant would fire at once and
// race with the replayed harness, so native firing is gated.
var verifTimerFiresAllowed bool

func verifExpiryFunc(b *Bucket) func() {
	return func() {
		if verifSymbolic() || verifTimerFiresAllowed {
			b.doExpiration()
		}
	}
}

// invDoc is the per-row representation invariant (DESIGN.md §4.3 clauses 1-4).
func invDoc(d verifDoc) bool {
	return verifAnd(
		d.Cas > 0,
		d.Exp >= 0, d.Exp < 1<<32,
		verifOr(d.Exp == 0, d.Exp > kMaxDeltaTtl),
		verifOr(d.IsJSON == 0, d.IsJSON == 1),
		verifOr(d.Tombstone == 0, d.Tombstone == 1),
		(d.Tombstone == 1) == (d.Value == nil),
		d.Rev >= 1,
		verifXattrsWellFormed(d.Xattrs),
	)
}

const verifUniverseSize = 2

// verifWorld: an arbitrary database satisfying the invariant, one bucket
// handle, nColls collections, the process-wide HLC with an arbitrary clock.
func verifWorld(inMemory bool, nColls, nDocs int) *verifEnv {
	return verifWorldN(inMemory, nColls, nDocs, 1)
}

func verifWorldN(inMemory bool, nColls, nDocs, nSpare int) *verifEnv {
	hlc = &HybridLogicalClock{clock: verifBoundedClock{}, highestTime: verifU64("hlc.highest")}
	U := verifXattrUniverse(verifUniverseSize)
	db := verifNewDB("b0", inMemory, nColls, nDocs, nSpare)
	env := &verifEnv{db: db, b: verifBucketOn(db, "b0", inMemory), U: U}
	for k := 0; k < nColls; k++ {
		env.colls = append(env.colls, env.b._initCollection(verifCollName(k), CollectionID(k+1)))
	}
	blc := verifBucketLastCas(db)
	verifAssume(verifAnd(blc >= 0, uint64(blc) <= hlc.highestTime, hlc.highestTime < 1<<62))
	for k := 0; k < nColls; k++ {
		lc := verifCollLastCas(db, int64(k+1))
		verifAssume(verifAnd(lc >= 0, lc <= blc))
	}
	for i := 0; i < verifDocSlots(db); i++ {
		d := verifDocSlot(db, i)
		verifAssume(verifImplies(d.Present, invDoc(d)))
		verifAssume(d.Rev < 1<<62) // bound (not part of the invariant): fewer than 2^62 mutations of one key
		verifAssume(verifImplies(d.Present, d.Cas <= verifCollLastCas(db, d.Coll)))
	}
	return env
}

// verifBoundedClock: arbitrary readings (no monotonicity) below 2^62 ns
// (year 2116); a reading at or above 2^63 cannot be stored by the SQL driver
// and makes every write fail, which is outside these claims (stated).
type verifBoundedClock struct{}

func (verifBoundedClock) getTime() uint64 {
	t := verifU64("clk")
	verifAssume(t < 1<<62)
	return t
}

const sgbucketRaw = sgbucket.Raw
