//go:build verif

package rosmar

import (
	"context"
	"errors"

	sgbucket "github.com/couchbase/sg-bucket"
)

// Concurrency harnesses: two client goroutines, the schedule is explored by
// the executor (context switches before lock / SQL / channel / condition
// operations, bounded number of preemptions).

func verifPreemptions() int {
	if verifThorough() {
		return 3
	}
	return 2
}

// C03: Incr never loses an increment, whichever handles are used.
func concIncr(inMemory bool) {
	env := verifWorld(inMemory, 1, 1)
	verifCutEvents()
	c1 := env.colls[0]
	b2 := env.b.copy()
	c2 := b2._initCollection(verifCollName(0), 1)
	key := verifKey("key")
	pre := verifGetDoc(env.db, 1, key)
	n := verifU64("n")
	if pre.hasBody() {
		verifAssume(verifIsCounter(pre.Value, n))
	}
	a1, a2, d := verifU64("a1"), verifU64("a2"), verifU64("deflt")
	var r1, r2 uint64
	var e1, e2 error
	verifExplore(verifPreemptions())
	go func() { r1, e1 = c1.Incr(key, a1, d, 0) }()
	go func() { r2, e2 = c2.Incr(key, a2, d, 0) }()
	verifJoin()
	verifAssert(verifLiveThreads() == 0, "both operations terminate (no deadlock)")
	verifAssert(verifAnd(e1 == nil, e2 == nil), "concurrent Incr calls succeed")
	if e1 != nil || e2 != nil {
		return
	}
	post := verifGetDoc(env.db, 1, key)
	// some one-at-a-time order explains both results and the final value
	base := d
	firstOf := func(a uint64) uint64 { // result of the Incr that ran first
		if pre.hasBody() {
			return n + a
		}
		return d
	}
	_ = base
	f1, f2 := firstOf(a1), firstOf(a2)
	order12 := verifAnd(r1 == f1, r2 == f1+a2, verifIsCounter(post.Value, f1+a2))
	order21 := verifAnd(r2 == f2, r1 == f2+a1, verifIsCounter(post.Value, f2+a1))
	verifAssert(verifOr(order12, order21), "results and final counter are those of the two Incr calls run one at a time: no increment is lost")
	verifReach("both-done")
}

func Harness_C03_incrIncrInMemory() { concIncr(true) }
func Harness_C03_incrIncrOnDisk()   { concIncr(false) }

type concEnv struct {
	env    *verifEnv
	c1, c2 *Collection
	key    string
	pre    verifDoc
}

// concBegin: one symbolic document slot, two handles on the bucket (copy()).
func concBegin(inMemory bool, cutEvents bool) *concEnv {
	return concBeginN(inMemory, cutEvents, 1)
}

func concBeginN(inMemory bool, cutEvents bool, nDocs int) *concEnv {
	env := verifWorldN(inMemory, 1, nDocs, 2)
	if cutEvents {
		verifCutEvents()
	}
	b2 := env.b.copy()
	ce := &concEnv{env: env, c1: env.colls[0], c2: b2._initCollection(verifCollName(0), 1), key: verifKey("key")}
	ce.pre = verifGetDoc(env.db, 1, ce.key)
	return ce
}

// invAfter: the table-level invariant that ties CAS values to the high-water marks.
func (ce *concEnv) casInvariant() bool {
	db := ce.env.db
	r := verifAnd(verifCollLastCas(db, 1) <= verifBucketLastCas(db), uint64(verifBucketLastCas(db)) <= hlc.highestTime)
	for i := 0; i < verifDocSlots(db)+1; i++ {
		d := verifDocSlotAny(db, i)
		r = verifAnd(r, verifImplies(d.Present, d.Cas <= verifCollLastCas(db, d.Coll)))
	}
	return r
}

// C03/C02-B: Update || Update: no update is lost.
func Harness_C03_updateUpdate() {
	ce := concBegin(true, true)
	verifAssume(ce.pre.hasBody())
	verifAssume(len(ce.pre.Value) < 1000) // appending two bytes stays below MaxDocSize
	A, B := []byte("A"), []byte("B")
	var e1, e2 error
	verifExplore(verifPreemptions())
	go func() {
		_, e1 = ce.c1.Update(ce.key, 0, func(cur []byte) ([]byte, *uint32, bool, error) { return verifConcat(cur, A), nil, false, nil })
	}()
	go func() {
		_, e2 = ce.c2.Update(ce.key, 0, func(cur []byte) ([]byte, *uint32, bool, error) { return verifConcat(cur, B), nil, false, nil })
	}()
	verifJoin()
	verifAssert(verifLiveThreads() == 0, "both operations terminate (no deadlock)")
	verifAssert(verifAnd(e1 == nil, e2 == nil), "concurrent Update loops succeed")
	post := verifGetDoc(ce.env.db, 1, ce.key)
	ab := verifConcat(verifConcat(ce.pre.Value, A), B)
	ba := verifConcat(verifConcat(ce.pre.Value, B), A)
	verifAssert(verifOr(verifBytesEq(post.Value, ab), verifBytesEq(post.Value, ba)), "each Update's callback result is stored on top of the version it was shown: no update is lost")
	verifAssert(ce.casInvariant(), "every stored CAS is at most the collection's and the bucket's high-water mark")
	verifReach("both-done")
}

// C02-B: two CAS writers that both hold version v: at most one replaces v.
func Harness_C02_casRace() {
	ce := concBegin(true, true)
	verifAssume(ce.pre.hasBody())
	v := uint64(ce.pre.Cas)
	var e1, e2 error
	verifExplore(verifPreemptions())
	go func() { _, e1 = ce.c1.WriteCas(ce.key, 0, v, []byte("one"), sgbucketRaw) }()
	go func() { _, e2 = ce.c2.WriteCas(ce.key, 0, v, []byte("two"), sgbucketRaw) }()
	verifJoin()
	verifAssert(verifLiveThreads() == 0, "both operations terminate (no deadlock)")
	verifAssert(!verifAnd(e1 == nil, e2 == nil), "two writers that both read version v cannot both replace v")
	verifAssert(verifOr(e1 == nil, e2 == nil), "one of two writers holding the current CAS succeeds")
	post := verifGetDoc(ce.env.db, 1, ce.key)
	if e1 == nil {
		verifAssert(verifAnd(verifBytesEq(post.Value, []byte("one")), isCasMismatch(e2)), "the loser gets a CAS mismatch and changes nothing")
	}
	if e2 == nil {
		verifAssert(verifAnd(verifBytesEq(post.Value, []byte("two")), isCasMismatch(e1)), "the loser gets a CAS mismatch and changes nothing")
	}
	verifReach("done")
}

func Harness_C02_removeVsWrite() {
	ce := concBegin(true, true)
	verifAssume(ce.pre.hasBody())
	v := uint64(ce.pre.Cas)
	var e1, e2 error
	verifExplore(verifPreemptions())
	go func() { _, e1 = ce.c1.Remove(ce.key, v) }()
	go func() { _, e2 = ce.c2.WriteCas(ce.key, 0, v, []byte("two"), sgbucketRaw) }()
	verifJoin()
	verifAssert(verifLiveThreads() == 0, "both operations terminate (no deadlock)")
	verifAssert(!verifAnd(e1 == nil, e2 == nil), "two writers that both read version v cannot both replace v")
	verifAssert(verifOr(e1 == nil, e2 == nil), "one of two writers holding the current CAS succeeds")
	verifReach("done")
}

// C03: a reader concurrent with a writer sees the old or the new version, never a mixture.
func Harness_C03_readVsWrite() {
	ce := concBegin(false, true)
	verifAssume(ce.pre.hasBody())
	var v []byte
	var cas uint64
	var e1, e2 error
	verifExplore(verifPreemptions())
	go func() { e1 = ce.c1.SetRaw(ce.key, 0, nil, []byte("new")) }()
	go func() { v, cas, e2 = ce.c2.GetRaw(ce.key) }()
	verifJoin()
	verifAssert(verifLiveThreads() == 0, "both operations terminate (no deadlock)")
	verifAssert(verifAnd(e1 == nil, e2 == nil), "concurrent read and write succeed")
	post := verifGetDoc(ce.env.db, 1, ce.key)
	verifAssert(verifOr(verifAnd(verifBytesEq(v, ce.pre.Value), cas == uint64(ce.pre.Cas)), verifAnd(verifBytesEq(v, []byte("new")), cas == uint64(post.Cas))),
		"a concurrent read returns the old or the new version, with that version's CAS")
	verifReach("done")
}

// C04-C: two writers on different keys: distinct CAS values, and CAS order is commit order.
func Harness_C04_twoWriters() {
	ce := concBegin(true, true)
	var e1, e2 error
	verifExplore(verifPreemptions())
	go func() { e1 = ce.c1.SetRaw("k1", 0, nil, []byte("one")) }()
	go func() { e2 = ce.c2.SetRaw("k2", 0, nil, []byte("two")) }()
	verifJoin()
	verifAssert(verifLiveThreads() == 0, "both operations terminate (no deadlock)")
	verifAssert(verifAnd(e1 == nil, e2 == nil), "concurrent writers succeed")
	d1, d2 := verifGetDoc(ce.env.db, 1, "k1"), verifGetDoc(ce.env.db, 1, "k2")
	verifAssert(d1.Cas != d2.Cas, "concurrent writers get distinct CAS values")
	verifAssert(ce.casInvariant(), "every stored CAS is at most the collection's and the bucket's high-water mark (CAS order is commit order)")
	verifReach("done")
}

// C02-B for the xattr family: two UpdateXattrs carrying the same (current) CAS.
func Harness_C02_xattrCasRace() {
	ce := concBegin(true, true)
	verifAssume(verifAnd(ce.pre.hasBody(), ce.pre.Xattrs == nil, len(ce.pre.Value) < 1000))
	v := uint64(ce.pre.Cas)
	ctx := context.Background()
	u := ce.env.U[0]
	verifAssume(validateXattrKey(u) == nil)
	var e1, e2 error
	verifExplore(verifPreemptions() - 1)
	go func() { _, e1 = ce.c1.UpdateXattrs(ctx, ce.key, 0, v, map[string][]byte{u: []byte(`"one"`)}, nil) }()
	go func() { _, e2 = ce.c2.UpdateXattrs(ctx, ce.key, 0, v, map[string][]byte{u: []byte(`"two"`)}, nil) }()
	verifJoin()
	verifAssert(verifLiveThreads() == 0, "both operations terminate (no deadlock)")
	verifAssert(!verifAnd(e1 == nil, e2 == nil), "two xattr writers that both read version v cannot both replace v")
	verifAssert(verifOr(e1 == nil, e2 == nil), "one of two writers holding the current CAS succeeds")
	verifReach("done")
}

// C03: WriteUpdateWithXattrs || WriteUpdateWithXattrs: both callbacks' effects survive.
func Harness_C03_writeUpdateWithXattrs() {
	ce := concBegin(true, true)
	verifAssume(verifAnd(ce.pre.hasBody(), ce.pre.Xattrs == nil, len(ce.pre.Value) < 1000))
	ctx := context.Background()
	u0, u1 := ce.env.U[0], ce.env.U[1]
	verifAssume(verifAnd(validateXattrKey(u0) == nil, validateXattrKey(u1) == nil))
	upd := func(c *Collection, name string, val string) error {
		_, err := c.WriteUpdateWithXattrs(ctx, ce.key, []string{u0, u1}, 0, nil, &sgbucket.MutateInOptions{},
			func(doc []byte, xattrs map[string][]byte, cas uint64) (sgbucket.UpdatedDoc, error) {
				return sgbucket.UpdatedDoc{Doc: doc, Xattrs: map[string][]byte{name: []byte(val)}}, nil
			})
		return err
	}
	var e1, e2 error
	verifExplore(verifPreemptions() - 1)
	go func() { e1 = upd(ce.c1, u0, `"one"`) }()
	go func() { e2 = upd(ce.c2, u1, `"two"`) }()
	verifJoin()
	verifAssert(verifLiveThreads() == 0, "both operations terminate (no deadlock)")
	verifAssert(verifAnd(e1 == nil, e2 == nil), "concurrent WriteUpdateWithXattrs loops succeed")
	post := verifGetDoc(ce.env.db, 1, ce.key)
	verifAssert(verifAnd(verifBytesEq(verifXattrGet(post.Xattrs, u0), []byte(`"one"`)), verifBytesEq(verifXattrGet(post.Xattrs, u1), []byte(`"two"`))),
		"each callback's result is stored on top of the version it was shown: no xattr update is lost")
	verifReach("done")
}

// C03, retry loops (deterministic interleaving: the competing write is made by the callback
// itself, through the other handle): after a requested retry, or after losing the CAS race,
// the callback is shown the version that is current then, and its answer is what is stored.
func Harness_C03_writeUpdateRetrySeesFresh() {
	le := lifeBegin(true)
	ctx := context.Background()
	verifAssert(le.c1.SetRaw("k", 0, nil, []byte(`{"v":1}`)) == nil, "write succeeds")
	mode := verifChoose("how", 2) // 0: the callback asks for a retry; 1: it answers and loses the CAS race
	calls := 0
	var shown2 []byte
	var shownCas2, otherCas uint64
	casOut, err := le.c1.WriteUpdateWithXattrs(ctx, "k", nil, 0, nil, nil,
		func(doc []byte, xattrs map[string][]byte, cas uint64) (sgbucket.UpdatedDoc, error) {
			calls++
			switch calls {
			case 1:
				otherCas, _ = le.c2.WriteCas("k", 0, cas, []byte(`{"v":2}`), sgbucket.Raw) // the competing writer
				if mode == 0 {
					return sgbucket.UpdatedDoc{}, sgbucket.ErrCasFailureShouldRetry
				}
				return sgbucket.UpdatedDoc{Doc: []byte(`{"v":"stale"}`)}, nil
			case 2:
				shown2, shownCas2 = doc, cas
				return sgbucket.UpdatedDoc{Doc: []byte(`{"v":"mine"}`)}, nil
			}
			return sgbucket.UpdatedDoc{}, errors.New("too many retries")
		})
	verifAssert(otherCas != 0, "the competing write succeeds")
	verifAssert(calls == 2, "one retry")
	verifAssert(verifAnd(string(shown2) == `{"v":2}`, shownCas2 == otherCas), "the retry is shown the version that is current then, not the one read before")
	verifAssert(err == nil, "the update succeeds on the retry")
	v, cas, gerr := le.c2.GetRaw("k")
	verifAssert(verifAnd(gerr == nil, string(v) == `{"v":"mine"}`, cas == casOut), "the stored document is the callback's last answer, the competing update was seen not overwritten blindly")
	verifReach("done")
}

// the same for Update's retry loop
func Harness_C03_updateRetrySeesFresh() {
	le := lifeBegin(true)
	verifAssert(le.c1.SetRaw("k", 0, nil, []byte("v1")) == nil, "write succeeds")
	mode := verifChoose("how", 2)
	calls := 0
	var shown2 []byte
	casOut, err := le.c1.Update("k", 0, func(cur []byte) ([]byte, *uint32, bool, error) {
		calls++
		switch calls {
		case 1:
			_ = le.c2.SetRaw("k", 0, nil, []byte("v2")) // the competing writer
			if mode == 0 {
				return nil, nil, false, sgbucket.ErrCasFailureShouldRetry
			}
			return []byte("stale"), nil, false, nil
		case 2:
			shown2 = cur
			return []byte("mine"), nil, false, nil
		}
		return nil, nil, false, errors.New("too many retries")
	})
	verifAssert(calls == 2, "one retry")
	verifAssert(string(shown2) == "v2", "the retry is shown the version that is current then")
	verifAssert(err == nil, "the update succeeds on the retry")
	v, cas, gerr := le.c2.GetRaw("k")
	verifAssert(verifAnd(gerr == nil, string(v) == "mine", cas == casOut), "the stored document is the callback's last answer")
	verifReach("done")
}
