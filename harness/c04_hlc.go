//go:build verif

package rosmar

// verifClock returns an arbitrary reading per call (no monotonicity).
type verifClock struct{}

func (verifClock) getTime() uint64 { return verifU64("clk") }

// C04-A: HLC kernel. For every highestTime h < 2^63 and every sequence of clock
// readings, Now() is strictly greater than h, strictly increasing, and
// highestTime tracks the last value handed out.
func Harness_C04_hlcNow() {
	h := verifU64("h")
	verifAssume(h < 1<<63)
	c := &HybridLogicalClock{clock: verifClock{}, highestTime: h}
	prev := h
	for i := 0; i < 4; i++ {
		n := uint64(c.Now())
		verifAssume(n < 1<<63) // wrap of the 64-bit counter is outside the claim
		verifAssert(n > prev, "Now strictly increases")
		verifAssert(c.highestTime == n, "highestTime tracks last Now")
		prev = n
	}
	verifReach("four-now")
}

func Harness_C04_hlcUpdate() {
	h := verifU64("h")
	c := &HybridLogicalClock{clock: verifClock{}, highestTime: h}
	t := verifU64("t")
	c.updateLatestTime(Timestamp(t))
	verifAssert(c.highestTime >= h, "updateLatestTime never lowers")
	verifAssert(c.highestTime >= t, "updateLatestTime reaches t")
	verifAssert(c.highestTime == h || c.highestTime == t, "updateLatestTime picks one")
	if c.highestTime == t {
		verifReach("raised")
	} else {
		verifReach("kept")
	}
}
