//go:build verif

package rosmar

import (
	"context"
	"encoding/json"
)

// C18: sub-document writes change only the addressed property, CAS-safely.
func stepSubdoc(insert, nested bool) {
	depth := 1
	if nested {
		depth = 2
	}
	P := verifPropUniverse(2, map[string]any{}, depth)
	env := verifWorld(true, 1, 1)
	verifCutEvents()
	c := env.colls[0]
	ctx := context.Background()
	key := verifKey("key")
	pre := verifGetDoc(env.db, 1, key)
	// the quantifier is over JSON object documents
	verifAssume(verifImplies(pre.hasBody(), verifAnd(pre.IsJSON == 1, verifObjIs(pre.Value), verifObjWellFormed(pre.Value))))
	path := P[0]
	if nested {
		path = P[0] + "." + P[1]
	}
	raw := verifBytes("raw")
	verifPrefer(verifBytesEq(verifJSONCanon(raw), raw))
	cas := verifU64("cas")
	// writing the JSON value null is not fixed by the property (rosmar removes the property)
	verifAssume(verifOr(len(raw) == 0, !verifBytesEq(verifJSONCanon(raw), []byte("null"))))
	snap := verifSnapshot(env.db)
	var err error
	var casOut uint64
	if insert {
		var v any
		verifAssume(json.Unmarshal(raw, &v) == nil)
		verifAssume(v != nil)
		err = c.SubdocInsert(ctx, key, path, cas, v)
	} else {
		casOut, err = c.WriteSubDoc(ctx, key, path, cas, raw)
	}
	post := verifGetDoc(env.db, 1, key)
	if err != nil {
		verifReach("refused")
		verifAssert(verifSameDB(env.db, snap), "a refused sub-document write changes nothing")
		return
	}
	verifReach("applied")
	verifAssert(verifOr(cas == 0, verifAnd(pre.Present, uint64(pre.Cas) == cas)), "a supplied CAS is honoured")
	if !insert {
		verifAssert(casOut == uint64(post.Cas), "returned CAS is the stored CAS")
	}
	verifAssert(verifAnd(post.Present, verifObjIs(post.Value)), "the document is a JSON object afterwards")
	remove := len(raw) == 0
	if insert {
		verifAssert(pre.hasBody(), "SubdocInsert refuses a missing document")
	}
	if !nested {
		if insert {
			verifAssert(!verifObjHas(pre.Value, P[0]), "SubdocInsert refuses an existing property")
		}
		if remove {
			verifAssert(!verifObjHas(post.Value, P[0]), "an empty value removes the addressed property")
		} else {
			verifAssert(verifAnd(verifObjHas(post.Value, P[0]), verifBytesEq(verifObjGet(post.Value, P[0]), verifJSONCanon(raw))), "the addressed property holds the given value")
		}
		verifAssert(verifAnd(verifObjHas(post.Value, P[1]) == verifAnd(pre.hasBody(), verifObjHas(pre.Value, P[1])),
			verifImplies(verifObjHas(post.Value, P[1]), verifBytesEq(verifObjGet(post.Value, P[1]), verifObjGet(pre.Value, P[1])))), "every other property is preserved")
	} else {
		inPre := verifObjGet(pre.Value, P[0])
		inPost := verifObjGet(post.Value, P[0])
		verifAssert(verifAnd(pre.hasBody(), verifObjHas(pre.Value, P[0]), verifObjIs(inPre)), "a nested write needs an object parent")
		verifAssert(verifAnd(verifObjHas(post.Value, P[0]), verifObjIs(inPost)), "the parent is still an object")
		if insert {
			verifAssert(!verifObjHas(inPre, P[1]), "SubdocInsert refuses an existing property")
		}
		if remove {
			verifAssert(!verifObjHas(inPost, P[1]), "an empty value removes the addressed property")
		} else {
			verifAssert(verifAnd(verifObjHas(inPost, P[1]), verifBytesEq(verifObjGet(inPost, P[1]), verifJSONCanon(raw))), "the addressed property holds the given value")
		}
		verifAssert(verifAnd(verifObjHas(inPost, P[0]) == verifObjHas(inPre, P[0]),
			verifImplies(verifObjHas(inPost, P[0]), verifBytesEq(verifObjGet(inPost, P[0]), verifObjGet(inPre, P[0])))), "sibling properties of the addressed one are preserved")
		verifAssert(verifAnd(verifObjHas(post.Value, P[1]) == verifObjHas(pre.Value, P[1]),
			verifImplies(verifObjHas(post.Value, P[1]), verifBytesEq(verifObjGet(post.Value, P[1]), verifObjGet(pre.Value, P[1])))), "every other top-level property is preserved")
	}
}

func Harness_C18_writeTop()     { stepSubdoc(false, false) }
func Harness_C18_writeNested()  { stepSubdoc(false, true) }
func Harness_C18_insertTop()    { stepSubdoc(true, false) }
func Harness_C18_insertNested() { stepSubdoc(true, true) }

// GetSubDocRaw returns the JSON of exactly the addressed property.
func Harness_C18_get() {
	P := verifPropUniverse(2, map[string]any{}, 1)
	env := verifWorld(true, 1, 1)
	c := env.colls[0]
	key := verifKey("key")
	pre := verifGetDoc(env.db, 1, key)
	verifAssume(verifImplies(pre.hasBody(), verifAnd(pre.IsJSON == 1, verifObjIs(pre.Value), verifObjWellFormed(pre.Value))))
	v, cas, err := c.GetSubDocRaw(context.Background(), key, P[0])
	if err != nil {
		verifReach("missing")
		verifAssert(verifOr(!pre.hasBody(), !verifObjHas(pre.Value, P[0]), verifBytesEq(verifObjGet(pre.Value, P[0]), []byte("null"))), "a present property of an existing document is returned")
		return
	}
	verifReach("found")
	verifAssert(verifAnd(pre.hasBody(), cas == uint64(pre.Cas), verifObjHas(pre.Value, P[0]), verifBytesEq(v, verifObjGet(pre.Value, P[0]))), "GetSubDocRaw returns the JSON of exactly the addressed property, with the document's CAS")
}

// C02 lists WriteSubDoc and SubdocInsert among the CAS-conditional entry points.
func Harness_C02_writeSubDoc()  { stepSubdoc(false, false) }
func Harness_C02_subdocInsert() { stepSubdoc(true, false) }
func Harness_C11_writeSubDoc()  { stepSubdocFrame() }

// C11: a sub-document write changes no document of another collection (same key in both).
func stepSubdocFrame() {
	P := verifPropUniverse(2, map[string]any{}, 1)
	env := verifWorld(true, 2, 2)
	verifCutEvents()
	c := env.colls[0]
	key := verifKey("key")
	pre := verifGetDoc(env.db, 1, key)
	verifAssume(verifImplies(pre.hasBody(), verifAnd(pre.IsJSON == 1, verifObjIs(pre.Value), verifObjWellFormed(pre.Value))))
	raw := verifBytes("raw")
	snap := verifSnapshot(env.db)
	_, err := c.WriteSubDoc(context.Background(), key, P[0], verifU64("cas"), raw)
	if err != nil {
		verifReach("refused")
		verifAssert(verifSameDB(env.db, snap), "a refused sub-document write changes nothing")
		return
	}
	verifReach("applied")
	verifAssert(verifSameDocsExcept(env.db, snap, 1, key), "a sub-document write changes no other document (other keys, other collections)")
}

// C18-B / C03: two sub-document writers of different properties of one document: no update is lost.
func Harness_C18_twoWriters() { subdocTwoWriters() }
func Harness_C03_subdocTwoWriters() { subdocTwoWriters() }

func subdocTwoWriters() {
	P := verifPropUniverse(2, map[string]any{}, 1)
	ce := concBegin(true, true)
	verifAssume(verifAnd(ce.pre.hasBody(), ce.pre.IsJSON == 1, verifObjIs(ce.pre.Value), verifObjWellFormed(ce.pre.Value), len(ce.pre.Value) < 1000))
	verifAssume(verifObjHas(ce.pre.Value, P[1])) // the second writer removes an existing property
	ctx := context.Background()
	var e1, e2 error
	verifExplore(verifPreemptions() - 1)
	go func() { _, e1 = ce.c1.WriteSubDoc(ctx, ce.key, P[0], 0, []byte(`"one"`)) }()
	go func() { _, e2 = ce.c2.WriteSubDoc(ctx, ce.key, P[1], 0, nil) }()
	verifJoin()
	verifAssert(verifLiveThreads() == 0, "both operations terminate (no deadlock)")
	verifAssert(verifAnd(e1 == nil, e2 == nil), "concurrent sub-document writes of different properties succeed")
	post := verifGetDoc(ce.env.db, 1, ce.key)
	verifAssert(verifAnd(verifObjHas(post.Value, P[0]), verifBytesEq(verifObjGet(post.Value, P[0]), []byte(`"one"`))), "the first writer's property is set")
	verifAssert(!verifObjHas(post.Value, P[1]), "the second writer's removal is not lost")
	verifReach("done")
}
