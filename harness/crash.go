//go:build verif

package rosmar

// C10 (scoped): atomicity and acknowledge-after-commit of rosmar's own code on
// an on-disk bucket, under a transactional stub with symbolic faults.
func Harness_C10_addRaw()          { stepAdd(pC10, true) }
func Harness_C10_setRaw()          { stepSet(pC10) }
func Harness_C10_writeCas()        { stepWriteCas(pC10) }
func Harness_C10_remove()          { stepRemove(pC10, true) }
func Harness_C10_touch()           { stepTouch(pC10) }
func Harness_C10_incr()            { stepIncr(pC10) }
func Harness_C10_updateXattrs()    { stepXattr(pC10, xUpdateXattrs) }
