//go:build verif

package rosmar

import (
	"context"

	sgbucket "github.com/couchbase/sg-bucket"
)

// C10 (scoped): atomicity and acknowledge-after-commit of rosmar's own code on
// an on-disk bucket, under a transactional stub with symbolic faults.
func Harness_C10_addRaw()          { stepAdd(pC10, true) }
func Harness_C10_setRaw()          { stepSet(pC10) }
func Harness_C10_writeCas()        { stepWriteCas(pC10) }
func Harness_C10_remove()          { stepRemove(pC10, true) }
func Harness_C10_touch()           { stepTouch(pC10) }
func Harness_C10_incr()            { stepIncr(pC10) }
func Harness_C10_updateXattrs()    { stepXattr(pC10, xUpdateXattrs) }

// C10, design documents: creating, replacing and deleting a design document (design-doc row,
// its views, the cascade over their index rows) is one transaction: success = exactly one
// commit holding everything, error = nothing committed, nothing changed.
func stepDDocAtomic(kind int) {
	env := verifWorld(false, 2, 1)
	verifCutEvents()
	c := env.colls[0]
	ctx := context.Background()
	verifMapSource(verifMapA)
	ddA := &sgbucket.DesignDoc{Views: sgbucket.ViewMap{"v": sgbucket.ViewDef{Map: verifMapA}}}
	ddB := &sgbucket.DesignDoc{Views: sgbucket.ViewMap{"v": sgbucket.ViewDef{Map: verifMapB}}}
	if kind != 0 {
		verifAssume(c.PutDDoc(ctx, "dd", ddA) == nil)
		if kind == 3 {
			// with a built index, so that the replacement has rows to cascade over
			_, err := c.View(ctx, "dd", "v", nil)
			verifAssume(err == nil)
		}
	}
	verifFaults(env.db, verifFaultBudget)
	cc0 := verifCommitCount(env.db)
	snap := verifSnapshot(env.db)
	var err error
	switch kind {
	case 0:
		err = c.PutDDoc(ctx, "dd", ddA)
	case 1, 3:
		err = c.PutDDoc(ctx, "dd", ddB)
	case 2:
		err = c.DeleteDDoc("dd")
	}
	if err != nil {
		verifReach("failed")
		verifAssert(verifSameDB(env.db, snap), "a design-document call that returns an error changes nothing")
		if verifSymbolic() {
			verifAssert(verifCommitCount(env.db) == cc0, "sym-only: a call that returns an error has committed nothing")
		}
		return
	}
	verifReach("applied")
	if verifSymbolic() {
		verifAssert(verifCommitCount(env.db) == cc0+1, "sym-only: every effect of a successful design-document call is made durable by exactly one commit")
		verifAssert(!verifTxnOpen(env.db), "sym-only: no transaction left open")
	}
	verifAssert(verifSameTable(env.db, snap, "documents"), "a design-document call changes no document")
}

func Harness_C10_putDDocNew()          { stepDDocAtomic(0) }
func Harness_C10_putDDocReplace()      { stepDDocAtomic(1) }
func Harness_C10_deleteDDoc()          { stepDDocAtomic(2) }
func Harness_C10_putDDocReplaceIndexed() { stepDDocAtomic(3) }

// more entry points under the same fault model
func Harness_C10_update()            { stepUpdate(pC10) }
func Harness_C10_setWithMeta()       { stepWithMeta(pC10, false) }
func Harness_C10_deleteWithMeta()    { stepWithMeta(pC10, true) }
func Harness_C10_setXattrs()         { stepXattr(pC10, xSetXattrs) }
func Harness_C10_removeXattrs()      { stepXattr(pC10, xRemoveXattrs) }
func Harness_C10_deleteWithXattrs()  { stepXattr(pC10, xDeleteWithXattrs) }

// number of injected faults per call: 1, and 2 in the *_2faults_T harnesses of the thorough tier
var verifFaultBudget = 1

func twoFaults(f func()) { verifFaultBudget = 2; f() }

func Harness_C10_addRaw_2faults_T()     { twoFaults(Harness_C10_addRaw) }
func Harness_C10_setRaw_2faults_T()     { twoFaults(Harness_C10_setRaw) }
func Harness_C10_remove_2faults_T()     { twoFaults(Harness_C10_remove) }
func Harness_C10_touch_2faults_T()      { twoFaults(Harness_C10_touch) }
func Harness_C10_incr_2faults_T()       { twoFaults(Harness_C10_incr) }
func Harness_C10_writeCas_2faults_T()   { twoFaults(Harness_C10_writeCas) }
func Harness_C10_putDDocReplace_2faults_T() { twoFaults(Harness_C10_putDDocReplace) }
func Harness_C10_deleteDDoc_2faults_T() { twoFaults(Harness_C10_deleteDDoc) }

// thorough tier only (tens of thousands of paths each)
func Harness_C10_writeTombstone_T()        { stepXattr(pC10, xWriteTombstone) }
func Harness_C10_writeWithXattrs_T()       { stepXattr(pC10, xWriteWithXattrs) }
func Harness_C10_deleteSubDocPaths_T()     { stepXattr(pC10, xDeleteSubDocPaths) }
