//go:build verif

package rosmar

import (
	"context"
	"errors"
)

const verifDiskDir = "/tmp/verif-c13-b0"

// probe: a write and a read through a handle; nil if both work.
func verifProbe(b *Bucket, key string) error {
	ds := b.DefaultDataStore()
	if ds == nil {
		return ErrBucketClosed
	}
	c := ds.(*Collection)
	if err := c.SetRaw(key, 0, nil, []byte("v-"+key)); err != nil {
		return err
	}
	v, _, err := c.GetRaw(key)
	if err != nil {
		return err
	}
	if string(v) != "v-"+key {
		return errors.New("probe read back a different value")
	}
	return nil
}

func verifReadable(b *Bucket, key string) bool {
	ds := b.DefaultDataStore()
	if ds == nil {
		return false
	}
	v, _, err := ds.(*Collection).GetRaw(key)
	return err == nil && string(v) == "v-"+key
}

// C13: bounded model checking of the handle lifecycle from the empty registry
// through the real OpenBucket / Close / CloseAndDelete.
func lifecycle(inMemory bool, steps int) {
	ctx := context.Background()
	cluster = &bucketRegistry{bucketCount: map[string]uint{}, buckets: map[string]*Bucket{}}
	hlc = &HybridLogicalClock{clock: &verifTickClock{}, highestTime: 0}
	url := InMemoryURL
	if !inMemory {
		url = uriFromPath(verifDiskDir)
		verifFSSet(verifDiskDir, false)
	}
	var handles []*Bucket
	var closed []bool
	var dead []bool // handle existed when the bucket was deleted: only 'no panic' is required of it
	dataWritten := false // key "persist" has been written to the current incarnation of the bucket
	for s := 0; s < steps; s++ {
		op := verifChoose("op", 3)
		switch op {
		case 0: // open
			mode := OpenMode(verifChoose("mode", 3))
			inRegistry := cluster.buckets["b0"] != nil
			exists := inRegistry
			if !inMemory {
				exists = inRegistry || verifStoreExists(verifDiskDir+"/"+kDBFilename)
			}
			b, err := OpenBucket(url, "b0", mode)
			switch mode {
			case CreateNew:
				verifAssert((err != nil) == exists, "CreateNew fails iff the bucket exists")
			case ReOpenExisting:
				verifAssert((err != nil) == !exists, "ReOpenExisting fails iff the bucket does not exist")
			default:
				verifAssert(err == nil, "CreateOrOpen succeeds")
			}
			if err == nil {
				verifAssert(verifProbe(b, "k"+string(rune('0'+s))) == nil, "a freshly opened handle works")
				if exists && dataWritten {
					verifAssert(verifReadable(b, "persist"), "data written earlier is intact when the bucket is opened again")
					verifReach("reopened-with-data")
				}
				if !exists {
					dataWritten = false
				}
				if verifProbe(b, "persist") == nil {
					dataWritten = true
				}
				handles = append(handles, b)
				closed = append(closed, false)
				dead = append(dead, false)
				_, err2 := OpenBucket("rosmar:///some/other/place", "b0", CreateOrOpen)
				verifAssert(err2 != nil, "a name already open at another URL is refused")
			}
		case 1: // close some handle (possibly again)
			if len(handles) == 0 {
				continue
			}
			i := verifChoose("h", len(handles))
			if closed[i] {
				verifReach("closed-twice")
			}
			handles[i].Close(ctx)
			closed[i] = true
		case 2: // close and delete through some handle
			if len(handles) == 0 {
				continue
			}
			i := verifChoose("h", len(handles))
			err := handles[i].CloseAndDelete(ctx)
			verifAssert(err == nil, "CloseAndDelete succeeds")
			closed[i] = true
			for j := range dead {
				dead[j] = true
			}
			dataWritten = false
			verifAssert(cluster.buckets["b0"] == nil, "CloseAndDelete removes the registry entry")
			if !inMemory {
				verifAssert(!verifStoreExists(verifDiskDir+"/"+kDBFilename), "CloseAndDelete removes the data")
			}
			verifReach("deleted")
		}
		// every handle: closed ones fail with the bucket-closed error, all others keep working
		for i, h := range handles {
			err := verifProbe(h, "p"+string(rune('0'+i)))
			if closed[i] {
				verifAssert(errors.Is(err, ErrBucketClosed), "calls on a closed handle fail with the bucket-closed error")
			} else if !dead[i] {
				verifAssert(err == nil, "closing one handle (even twice) leaves every other open handle working")
			}
		}
	}
	verifReach("done")
}

func Harness_C13_lifecycleInMemory() { lifecycle(true, 4) }
func Harness_C13_lifecycleOnDisk()   { lifecycle(false, 4) }
func Harness_C13_lifecycleInMemory5_T() { lifecycle(true, 5) }
func Harness_C13_lifecycleOnDisk5_T()   { lifecycle(false, 5) }

// verifTickClock: a concrete, strictly increasing clock (the lifecycle harnesses
// quantify over operation sequences, not over clock readings).
type verifTickClock struct{ t uint64 }

func (c *verifTickClock) getTime() uint64 {
	c.t += 1 << 20
	return c.t
}

// C04-D / C10-C: an on-disk bucket is closed (or the process dies) and is
// opened again by a fresh process whose clock may have gone backwards.
func reopen(kill bool) {
	ctx := context.Background()
	cluster = &bucketRegistry{bucketCount: map[string]uint{}, buckets: map[string]*Bucket{}}
	verifFSSet(verifDiskDir, false)
	url := uriFromPath(verifDiskDir)
	h0 := verifU64("h0")
	verifAssume(h0 < 1<<62)
	hlc = &HybridLogicalClock{clock: verifBoundedClock{}, highestTime: h0}
	b, err := OpenBucket(url, "b0", CreateNew)
	verifAssume(err == nil)
	c := b.DefaultDataStore().(*Collection)
	exp := verifU32("exp")
	verifAssume(verifOr(exp == 0, exp > kMaxDeltaTtl))
	err = c.SetRaw("k", exp, nil, []byte("v"))
	verifAssume(err == nil)
	_, cas1, err := c.GetRaw("k")
	verifAssume(err == nil)
	uuid1, _ := b.UUID()
	if kill {
		// the process dies: nothing is closed, the registry and the HLC are gone
		cluster = &bucketRegistry{bucketCount: map[string]uint{}, buckets: map[string]*Bucket{}}
		verifReach("restart")
	} else {
		b.Close(ctx)
		verifReach("restart")
	}
	hlc = &HybridLogicalClock{clock: verifBoundedClock{}, highestTime: 0}
	b2, err := OpenBucket(url, "b0", ReOpenExisting)
	verifAssert(err == nil, "an on-disk bucket can be reopened after its last handle closed or the process died")
	if err != nil {
		return
	}
	c2 := b2.DefaultDataStore().(*Collection)
	v, cas1b, err := c2.GetRaw("k")
	verifAssert(verifAnd(err == nil, string(v) == "v", cas1b == cas1), "a write that returned success is visible to a later open")
	uuid2, _ := b2.UUID()
	verifAssert(uuid2 == uuid1, "the reopened bucket keeps its UUID")
	e2, err := c2.GetExpiry(ctx, "k")
	verifAssert(verifAnd(err == nil, e2 == exp), "the reopened bucket keeps the expiry")
	em := b2.expManager
	verifAssert(verifImplies(exp != 0, verifAnd(*em.nextExp != 0, *em.nextExp <= exp, verifTimerArmed(em.timer))), "pending expirations are re-armed when the bucket is reopened")
	err = c2.SetRaw("k2", 0, nil, []byte("w"))
	verifAssert(err == nil, "the reopened bucket accepts writes")
	_, cas2, _ := c2.GetRaw("k2")
	verifAssert(cas2 > cas1, "a CAS handed out after reopening is greater than every CAS handed out before")
}

func Harness_C04_reopenAfterClose() { reopen(false) }
func Harness_C04_reopenAfterKill()  { reopen(true) }
func Harness_C10_reopenAfterClose() { reopen(false) }
func Harness_C10_reopenAfterKill()  { reopen(true) }
