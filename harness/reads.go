//go:build verif

package rosmar

import (
	"context"
	"errors"

	sgbucket "github.com/couchbase/sg-bucket"
)

// C01 (read side): on an arbitrary invariant-satisfying row every read entry
// point returns exactly what the row holds, and reports a key without a body
// (never written, deleted, purged) as missing.
func Harness_C01_reads() {
	env := verifWorld(true, 2, 2)
	c := env.colls[0]
	ctx := context.Background()
	key := verifKey("key")
	d := verifGetDoc(env.db, 1, key)
	live := d.hasBody()
	snap := verifSnapshot(env.db)

	v, cas, err := c.GetRaw(key)
	if err != nil {
		verifAssert(verifAnd(!live, isMissing(err)), "GetRaw reports exactly the keys without a body as missing")
	} else {
		verifAssert(verifAnd(live, verifBytesEq(v, d.Value), cas == uint64(d.Cas)), "GetRaw returns the stored body and CAS")
	}
	var out []byte
	cas2, err := c.Get(key, &out)
	if err != nil {
		verifAssert(verifAnd(!live, isMissing(err)), "Get reports exactly the keys without a body as missing")
	} else {
		verifAssert(verifAnd(live, verifBytesEq(out, d.Value), cas2 == uint64(d.Cas)), "Get returns the stored body and CAS")
	}
	ex, err := c.Exists(key)
	verifAssert(verifAnd(err == nil, ex == live), "Exists is true exactly for keys with a body")
	exp, err := c.GetExpiry(ctx, key)
	if err != nil {
		verifAssert(verifAnd(!live, isMissing(err)), "GetExpiry reports exactly the keys without a body as missing")
	} else {
		verifAssert(verifAnd(live, int64(exp) == d.Exp), "GetExpiry returns the stored expiry of a live document")
	}
	verifAssert(c.isTombstone(c.db(), key) == verifAnd(d.Present, d.Value == nil), "isTombstone is true exactly for existing keys without a body")
	verifAssert(verifSameDB(env.db, snap), "reads change nothing")
	if live {
		verifReach("live")
	} else if d.Present {
		verifReach("tombstone")
	} else {
		verifReach("absent")
	}
}

// C01/C05/C07 (read side): GetWithXattrs / GetXattrs return the stored body, CAS and
// exactly the requested xattrs that exist; a tombstone has no body for every reader.
func Harness_C01_readsXattrs() {
	env := verifWorld(true, 2, 2)
	c := env.colls[0]
	ctx := context.Background()
	key := verifKey("key")
	d := verifGetDoc(env.db, 1, key)
	u0, u1 := env.U[0], env.U[1]
	verifAssume(verifAnd(u0 != virtualXattrName, u1 != virtualXattrName, u0 != virtualXattrName+"."+virtualXattrRevSeqNo, u1 != virtualXattrName+"."+virtualXattrRevSeqNo))
	body, xs, cas, err := c.GetWithXattrs(ctx, key, []string{u0, u1})
	has0, has1 := verifXattrHas(d.Xattrs, u0), verifXattrHas(d.Xattrs, u1)
	if err != nil {
		verifReach("missing")
		verifAssert(isMissing(err), "GetWithXattrs fails only with a missing-key error")
		verifAssert(verifOr(!d.Present, verifAnd(d.Value == nil, !has0, !has1)), "GetWithXattrs reports missing only for absent keys or tombstones without the requested xattrs")
	} else {
		verifReach("found")
		verifAssert(verifAnd(d.Present, verifBytesEq(body, d.Value), cas == uint64(d.Cas)), "GetWithXattrs returns the stored body (none for a tombstone) and CAS")
		x0, ok0 := xs[u0]
		x1, ok1 := xs[u1]
		verifAssert(verifAnd(ok0 == has0, ok1 == has1), "GetWithXattrs returns exactly the requested xattrs that exist")
		if ok0 {
			verifAssert(verifBytesEq(x0, verifXattrGet(d.Xattrs, u0)), "xattr value as stored")
		}
		if ok1 {
			verifAssert(verifBytesEq(x1, verifXattrGet(d.Xattrs, u1)), "xattr value as stored")
		}
	}
	xm, cas3, err := c.GetXattrs(ctx, key, []string{u0})
	if err == nil {
		verifAssert(verifAnd(d.Present, has0, cas3 == uint64(d.Cas), verifBytesEq(xm[u0], verifXattrGet(d.Xattrs, u0))), "GetXattrs returns the stored xattr and CAS")
	} else {
		var xm sgbucket.XattrMissingError
		verifAssert(verifOr(!d.Present, !has0, errors.As(err, &xm)), "GetXattrs fails only when the key or the xattr is missing")
		verifAssert(verifOr(!d.Present, !has0), "GetXattrs finds an existing xattr")
	}
}

// C17 (read side): the virtual xattrs report the stored revision number.
func Harness_C17_virtualXattr() {
	env := verifWorld(true, 2, 2)
	c := env.colls[0]
	ctx := context.Background()
	key := verifKey("key")
	d := verifGetDoc(env.db, 1, key)
	name := virtualXattrName + "." + virtualXattrRevSeqNo
	xm, _, err := c.GetXattrs(ctx, key, []string{name})
	if err != nil {
		verifReach("missing")
		verifAssert(!d.Present, "the virtual revision xattr exists for every existing key")
		return
	}
	verifReach("found")
	verifAssert(verifBytesEq(xm[name], verifRevidText(d.Rev)), "$document.revid reports the stored revision number")
}
