//go:build verif

package rosmar

import (
	sgbucket "github.com/couchbase/sg-bucket"
)

// verifAddFeed registers a real dcpFeed (real queue) without starting its goroutine,
// so the harness can pull what the write path pushed.
func verifAddFeed(c *Collection, keysOnly bool) *dcpFeed {
	feed := &dcpFeed{collection: c, args: sgbucket.FeedArguments{KeysOnly: keysOnly}}
	feed.events.init()
	c.bucket.collectionFeeds[c.DataStoreNameImpl] = append(c.bucket.collectionFeeds[c.DataStoreNameImpl], feed)
	return feed
}

func (k *kvCtx) anyXattr(d verifDoc) bool {
	r := false
	for _, u := range k.env.U {
		r = verifOr(r, verifXattrHas(d.Xattrs, u))
	}
	return r
}

// eventDescribes: the event carries exactly the state of row d (C08/C09 share this oracle).
func (k *kvCtx) eventDescribes(ev *sgbucket.FeedEvent, d verifDoc, key string, collID uint32, keysOnly bool, what string) {
	del := d.Value == nil
	verifAssert(verifBytesEq(ev.Key, []byte(key)), what+": key")
	verifAssert(verifAnd((ev.Opcode == sgbucket.FeedOpDeletion) == del, (ev.Opcode == sgbucket.FeedOpMutation) == !del), what+": deletion opcode iff the document has no body")
	verifAssert(ev.Cas == uint64(d.Cas), what+": CAS")
	verifAssert(int64(ev.Expiry) == d.Exp, what+": expiry")
	verifAssert(ev.RevNo == uint64(d.Rev), what+": revision number")
	verifAssert(ev.CollectionID == collID, what+": collection id")
	hasX := k.anyXattr(d)
	if !keysOnly {
		xflag := ev.DataType&sgbucket.FeedDataTypeXattr != 0
		verifAssert(verifImplies(hasX, xflag), what+": xattr datatype when the document has xattrs")
		verifAssert(verifImplies(!del, (ev.DataType&sgbucket.FeedDataTypeJSON != 0) == (d.IsJSON == 1)), what+": JSON datatype as stored")
		verifAssert(verifOr(
			verifAnd(xflag, verifSameEncoded(ev.Value, verifEncodeValueWithXattrs(d.Value, d.Xattrs))),
			verifAnd(!xflag, verifBytesEq(ev.Value, d.Value))), what+": body and complete xattrs as stored")
	} else {
		verifAssert(ev.Value == nil, what+": keys-only feed gets no value")
	}
}

func (k *kvCtx) checkEvents(post verifDoc) {
	n1, n2, nk, no := k.f1.events.list.Len(), k.f2.events.list.Len(), k.fk.events.list.Len(), k.fo.events.list.Len()
	verifAssert(verifAnd(n1 == 1, n2 == 1, nk == 1), "exactly one event per successful mutation on every feed of the collection, whichever handle made the write")
	verifAssert(no == 0, "no event on another collection's feed")
	if n1 >= 1 {
		k.eventDescribes(k.f1.events.pull(), post, k.key, k.c.GetCollectionID(), false, "live event")
	}
	if n2 >= 1 {
		k.eventDescribes(k.f2.events.pull(), post, k.key, k.c.GetCollectionID(), false, "live event (other handle)")
	}
	if nk >= 1 {
		k.eventDescribes(k.fk.events.pull(), post, k.key, k.c.GetCollectionID(), true, "live event (keys only)")
	}
}

func Harness_C08_addRaw()   { stepAdd(pC08, true) }
func Harness_C08_setRaw()   { stepSet(pC08) }
func Harness_C08_writeCas() { stepWriteCas(pC08) }
func Harness_C08_remove()   { stepRemove(pC08, true) }
func Harness_C08_incr()     { stepIncr(pC08) }

func Harness_C08_setXattrs()         { stepXattr(pC08, xSetXattrs) }
func Harness_C08_deleteSubDocPaths() { stepXattr(pC08, xDeleteSubDocPaths) }
func Harness_C08_writeWithXattrs()   { stepXattr(pC08, xWriteWithXattrs) }
func Harness_C08_writeTombstone()    { stepXattr(pC08, xWriteTombstone) }
func Harness_C08_writeResurrection() { stepXattr(pC08, xWriteResurrection) }
func Harness_C08_deleteWithXattrs()  { stepXattr(pC08, xDeleteWithXattrs) }

// C09-A: backfill over an arbitrary table: one event per document of this
// collection with cas >= start, in CAS order, each describing the row exactly
// as a live event would.
func Harness_C09_backfill() { backfillOver(2, false) }

// thorough tier: three rows in all six CAS orders; to keep the path count in reach the rows
// (when present) are live documents of this collection without xattrs, all in range, and the feed is not
// keys-only (those dimensions are covered with two rows)
func Harness_C09_backfill3_T() { backfillOver(3, true) }

func backfillOver(nDocs int, narrow bool) {
	env := verifWorld(true, 2, nDocs)
	k := &kvCtx{env: env, c: env.colls[0], coll: 1}
	start := verifU64("start")
	verifAssume(start < 1<<63)
	keysOnly := verifBool("keysOnly")
	if narrow {
		verifAssume(!keysOnly)
		for i := 0; i < verifDocSlots(env.db); i++ {
			d := verifDocSlot(env.db, i)
			verifAssume(verifImplies(d.Present, verifAnd(d.Coll == 1, d.Value != nil, d.Xattrs == nil, uint64(d.Cas) >= start)))
		}
	}
	var q eventQueue
	q.init()
	err := k.c.enqueueBackfillEvents(start, keysOnly, &q)
	verifAssert(err == nil, "backfill query succeeds")
	if err != nil {
		return
	}
	n := q.list.Len()
	var want []bool
	for i := 0; i < verifDocSlots(env.db); i++ {
		d := verifDocSlot(env.db, i)
		want = append(want, verifAnd(d.Present, d.Coll == 1, uint64(d.Cas) >= start))
	}
	verifAssert(n == verifCount(want...), "backfill delivers one event per document with CAS >= start (tombstones included), none from other collections")
	var prev uint64
	for i := 0; i < n; i++ {
		ev := q.pull()
		d := verifGetDoc(env.db, 1, string(ev.Key))
		verifAssert(verifAnd(d.Present, uint64(d.Cas) >= start), "backfill event belongs to a document in range")
		k.eventDescribes(ev, d, string(ev.Key), k.c.GetCollectionID(), keysOnly, "backfill event")
		verifAssert(verifOr(i == 0, ev.Cas >= prev), "backfill in CAS order")
		prev = ev.Cas
	}
	if n == 0 {
		verifReach("empty")
	}
	if n >= 2 {
		verifReach("several")
	}
}

func Harness_C08_removeXattrs()       { stepXattr(pC08, xRemoveXattrs) }
func Harness_C08_updateXattrs()       { stepXattr(pC08, xUpdateXattrs) }
func Harness_C08_updateXattrDelBody() { stepXattr(pC08, xUpdateXattrDeleteBody) }
