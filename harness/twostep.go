//go:build verif

package rosmar

import (
	"context"

	sgbucket "github.com/couchbase/sg-bucket"
)

// C06 (2-step): whichever entry point last wrote the key, a following insert
// succeeds iff the key has no body, and a refused insert changes no document.
func Harness_C06_twoStep() {
	k := kvBegin(pC06)
	ctx := context.Background()
	val := verifBytes("val1")
	verifAssume(val != nil)
	var err error
	switch verifChoose("first", 8) {
	case 0:
		_, err = k.c.AddRaw(k.key, 0, val)
	case 1:
		err = k.c.SetRaw(k.key, 0, nil, val)
	case 2:
		_, err = k.c.WriteCas(k.key, 0, 0, val, sgbucket.Raw)
	case 3:
		_, err = k.c.WriteCas(k.key, 0, 0, val, sgbucket.Raw|sgbucket.AddOnly)
	case 4:
		err = k.c.Delete(k.key)
	case 5:
		_, err = k.c.WriteResurrectionWithXattrs(ctx, k.key, 0, val, nil, nil)
	case 6:
		err = k.c.DeleteWithXattrs(ctx, k.key, nil)
	case 7:
		_, err = k.c.WriteCas(k.key, 0, uint64(k.pre.Cas), val, sgbucket.Raw)
	}
	_ = err
	mid := k.post()
	snap := verifSnapshot(k.env.db)
	val2 := verifBytes("val2")
	verifAssume(val2 != nil)
	added, err2 := k.c.AddRaw(k.key, 0, val2)
	if err2 != nil {
		verifReach("error")
		return
	}
	verifAssert(added == !mid.hasBody(), "insert succeeds iff the key has no body, whichever entry point wrote it last")
	if !added {
		verifReach("refused")
		verifAssert(verifSameTable(k.env.db, snap, "documents"), "a refused insert leaves every document untouched")
	} else {
		verifReach("added")
		post := k.post()
		verifAssert(verifAnd(post.Present, verifBytesEq(post.Value, val2)), "the inserted body is stored")
	}
}
