//go:build verif && verifsym

package rosmar

import (
	"database/sql"
	"time"
)

// Intrinsics: intercepted by the symbolic executor (gosmt). Bodies are never run.

func verifU64(name string) uint64      { panic("intrinsic") }
func verifU32(name string) uint32      { panic("intrinsic") }
func verifInt(name string) int         { panic("intrinsic") }
func verifBool(name string) bool       { panic("intrinsic") }
func verifStr(name string) string      { panic("intrinsic") }
func verifBytes(name string) []byte    { panic("intrinsic") }
func verifKey(name string) string      { panic("intrinsic") }
func verifAssume(c bool)               { panic("intrinsic") }
func verifAssert(c bool, label string) { panic("intrinsic") }
func verifReach(label string)          { panic("intrinsic") }
func verifChoose(name string, n int) int { panic("intrinsic") }
func verifThorough() bool              { panic("intrinsic") }
func verifSymbolic() bool              { panic("intrinsic") }

func verifAnd(cs ...bool) bool         { panic("intrinsic") }
func verifOr(cs ...bool) bool          { panic("intrinsic") }
func verifImplies(a, b bool) bool      { panic("intrinsic") }
func verifBytesEq(a, b []byte) bool    { panic("intrinsic") } // nil-ness and content

func verifNewDB(name string, inMemory bool, nColls, nDocs, nSpare int) *sql.DB { panic("intrinsic") }
func verifDocSlots(db *sql.DB) int                                            { panic("intrinsic") }
func verifDocSlot(db *sql.DB, i int) verifDoc                                 { panic("intrinsic") }
func verifGetDoc(db *sql.DB, coll int64, key string) verifDoc                 { panic("intrinsic") }
func verifBucketLastCas(db *sql.DB) int64                                     { panic("intrinsic") }
func verifCollLastCas(db *sql.DB, id int64) int64                             { panic("intrinsic") }
func verifSnapshot(db *sql.DB) int                                            { panic("intrinsic") }
func verifSameDocsExcept(db *sql.DB, snap int, coll int64, key string) bool   { panic("intrinsic") }
func verifSameTable(db *sql.DB, snap int, table string) bool                  { panic("intrinsic") }
func verifSameDB(db *sql.DB, snap int) bool                                   { panic("intrinsic") }
func verifTxnOpen(db *sql.DB) bool                                            { panic("intrinsic") }

func verifXattrUniverse(n int) []string                     { panic("intrinsic") }
func verifXattrHas(x []byte, name string) bool              { panic("intrinsic") }
func verifXattrGet(x []byte, name string) []byte            { panic("intrinsic") }
func verifXattrsWellFormed(x []byte) bool                   { panic("intrinsic") }
func verifJSONValid(x []byte) bool                          { panic("intrinsic") }
func verifJSONCanon(x []byte) []byte                        { panic("intrinsic") }
func verifEncodeValueWithXattrs(body, xattrs []byte) []byte { panic("intrinsic") }

func verifCut(fn string)                { panic("intrinsic") } // give a function an empty body (recorded as outside the claim)
func verifIsSystemXattr(u string) bool { panic("intrinsic") }

func verifConcat(a, b []byte) []byte                      { panic("intrinsic") }
func verifIsCounter(b []byte, n uint64) bool              { panic("intrinsic") }
func verifCollLastCasAt(db *sql.DB, snap int, id int64) int64 { panic("intrinsic") }

func verifPrefer(c bool) { panic("intrinsic") } // soft preference for replay-friendly models

func verifIfI64(c bool, a, b int64) int64 { panic("intrinsic") }

func verifSameEncoded(a, b []byte) bool { panic("intrinsic") } // DCP value+xattrs encodings equal up to xattr order
func verifCount(cs ...bool) int         { panic("intrinsic") }

func verifTimerArmed(t *time.Timer) bool              { panic("intrinsic") }
func verifTimerWithin(t *time.Timer, exp uint32) bool { panic("intrinsic") } // armed, and fires no later than (exp - now_at_arming) seconds (0 if past)
func verifCommitCount(db *sql.DB) int                 { panic("intrinsic") } // number of times the committed state of db was replaced

func verifFaults(db *sql.DB, budget int) { panic("intrinsic") } // enable symbolic fault injection on Begin/Exec/Commit

func verifRegisterStore(db *sql.DB, dsnPath string) { panic("intrinsic") }
func verifStoreExists(dsnPath string) bool          { panic("intrinsic") }
func verifDBClosed(db *sql.DB) bool                 { panic("intrinsic") }
func verifFSSet(path string, exists bool)           { panic("intrinsic") }

func verifExplore(preemptions int) { panic("intrinsic") } // explore thread interleavings (context switches at lock/SQL/channel operations, bounded preemptions)
func verifJoin()                   { panic("intrinsic") } // wait until every other goroutine has finished or is blocked
func verifLiveThreads() int        { panic("intrinsic") } // goroutines (other than the caller) that have not finished
func verifFireTimers() int         { panic("intrinsic") } // fire every armed timer (each in its own goroutine); returns how many

func verifDocSlotAny(db *sql.DB, i int) verifDoc { panic("intrinsic") } // slot i including spare slots (post-state scans)

func verifDoneClosed(ch chan struct{}) bool { panic("intrinsic") } // channel has been closed

func verifPropUniverse(n int, sample map[string]any, depth int) []string { panic("intrinsic") }
func verifObjIs(x []byte) bool                                 { panic("intrinsic") }
func verifObjHas(x []byte, p string) bool                      { panic("intrinsic") }
func verifObjGet(x []byte, p string) []byte                    { panic("intrinsic") }
func verifObjWellFormed(x []byte) bool                         { panic("intrinsic") }

func verifMapSource(src string)        { panic("intrinsic") } // the map function source the oracle applies from now on
func verifMapEmits(d verifDoc) bool    { panic("intrinsic") } // the (uninterpreted) map function emits a row for this document state
func verifMapKey(d verifDoc) []byte    { panic("intrinsic") }
func verifMapValue(d verifDoc) []byte  { panic("intrinsic") }
func verifCollLess(a, b []byte) bool   { panic("intrinsic") } // JSON collation order (uninterpreted)
func verifAnyJSON(v any) []byte        { panic("intrinsic") }
func verifSymOnly()                    { panic("intrinsic") } // this harness has no native counterpart

func verifRevidText(rev int64) []byte { panic("intrinsic") } // the text `"<rev>"` as the code formats it

func verifXattrsBlob(name string) []byte { panic("intrinsic") } // arbitrary raw xattrs JSON (may be nil); concretised as a real JSON object

func verifMacroCasJSON(cas uint64) []byte  { panic("intrinsic") } // JSON text of the expanded CAS macro
func verifMacroCrcJSON(body []byte) []byte { panic("intrinsic") } // JSON text of the expanded CRC32c macro
