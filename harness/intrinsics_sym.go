//go:build verif && verifsym

package rosmar

// Intrinsics: intercepted by the symbolic executor (gosmt). Bodies are never run.

func verifU64(name string) uint64      { panic("intrinsic") }
func verifU32(name string) uint32      { panic("intrinsic") }
func verifInt(name string) int         { panic("intrinsic") }
func verifBool(name string) bool       { panic("intrinsic") }
func verifStr(name string) string      { panic("intrinsic") }
func verifBytes(name string) []byte    { panic("intrinsic") }
func verifAssume(c bool)               { panic("intrinsic") }
func verifAssert(c bool, label string) { panic("intrinsic") }
func verifReach(label string)          { panic("intrinsic") }
func verifChoose(name string, n int) int { panic("intrinsic") }
func verifThorough() bool              { panic("intrinsic") }
func verifSymbolic() bool              { panic("intrinsic") }
