//go:build verif

package rosmar

func Harness_DBG_now() {
	env := verifWorld(true, 2, 2)
	_ = env
	n := hlc.Now()
	verifAssert(n > 0, "pos")
	verifReach("end")
}
