//go:build verif

package rosmar

import (
	"context"

	sgbucket "github.com/couchbase/sg-bucket"
)

// C12: a non-stale view query equals the (uninterpreted) map function applied to
// the collection's current documents, however the index was updated before.
func viewMatches(env *verifEnv, res sgbucket.ViewResult, what string) {
	db := env.db
	var want []bool
	var docs []verifDoc
	for i := 0; i < verifDocSlots(db)+1; i++ {
		d := verifDocSlotAny(db, i)
		docs = append(docs, d)
		want = append(want, verifAnd(d.Present, d.Coll == 1, verifOr(d.Value != nil, d.Xattrs != nil), verifMapEmits(d)))
	}
	verifAssert(len(res.Rows) == verifCount(want...), what+": one row per emitting current document (none from superseded, deleted-without-xattrs, other-collection documents)")
	for _, r := range res.Rows {
		m := false
		for i, d := range docs {
			m = verifOr(m, verifAnd(want[i], r.ID == d.Key, verifBytesEq(verifAnyJSON(r.Key), verifMapKey(d)), verifBytesEq(verifAnyJSON(r.Value), verifMapValue(d))))
		}
		verifAssert(m, what+": every row is what the map function emits for the current version of its document")
	}
	for i := 0; i+1 < len(res.Rows); i++ {
		a, b := res.Rows[i], res.Rows[i+1]
		verifAssert(!verifCollLess(verifAnyJSON(b.Key), verifAnyJSON(a.Key)), what+": rows are ordered by collation of the emitted key")
		verifAssert(a.ID != b.ID, what+": no document appears twice")
	}
}

func stepView(op int) {
	verifSymOnly()
	nDocs := 1
	if verifThorough() {
		nDocs = 2
	}
	env := verifWorld(true, 2, nDocs)
	verifCutEvents()
	c := env.colls[0]
	ctx := context.Background()
	err := c.PutDDoc(ctx, "dd", &sgbucket.DesignDoc{Views: sgbucket.ViewMap{"v": sgbucket.ViewDef{Map: "function(doc,meta){emit(meta.id,null)}"}}})
	verifAssert(err == nil, "PutDDoc succeeds")
	res, err := c.View(ctx, "dd", "v", nil)
	verifAssert(err == nil, "first view query succeeds")
	if err != nil {
		return
	}
	viewMatches(env, res, "fresh index")
	// one more mutation, then query again: the incremental update must catch exactly it
	key := verifKey("key")
	switch op {
	case 0:
		err = c.SetRaw(key, 0, nil, verifBytesNonNil("val"))
	case 1:
		err = c.Delete(key)
	case 2:
		_, err = c.WriteCas(key, 0, verifU64("cas"), verifBytesNonNil("val"), sgbucket.Raw)
	case 3:
		_, err = c.SetXattrs(ctx, key, map[string][]byte{env.U[0]: verifBytesNonNil("xv")})
	case 4:
		_, err = env.b.PurgeTombstones()
	case 5:
		err = env.colls[1].SetRaw(key, 0, nil, verifBytesNonNil("val")) // another collection
	case 6:
		pre := verifGetDoc(env.db, 1, key)
		newCas := verifU64("newCas")
		verifAssume(verifAnd(newCas > 0, newCas < 1<<62))
		err = c.SetWithMeta(ctx, key, uint64(pre.Cas), newCas, 0, nil, verifBytesNonNil("val"), sgbucket.FeedDataTypeRaw)
	}
	_ = err
	verifReach("second-query")
	res2, err := c.View(ctx, "dd", "v", nil)
	verifAssert(err == nil, "second view query succeeds")
	if err != nil {
		return
	}
	viewMatches(env, res2, "after one more mutation")
}

func verifBytesNonNil(name string) []byte {
	b := verifBytes(name)
	verifAssume(b != nil)
	return b
}

func Harness_C12_viewSet()      { stepView(0) }
func Harness_C12_viewDelete()   { stepView(1) }
func Harness_C12_viewWriteCas() { stepView(2) }
func Harness_C12_viewXattrs()   { stepView(3) }
func Harness_C12_viewPurge()    { stepView(4) }
func Harness_C12_viewOtherColl() { stepView(5) }

func Harness_C12_viewSetWithMeta() { stepView(6) }
