//go:build verif

package rosmar

import (
	"context"

	sgbucket "github.com/couchbase/sg-bucket"
)

// C12: a non-stale view query equals the (uninterpreted) map function applied to
// the collection's current documents, however the index was updated before.
func viewMatches(env *verifEnv, res sgbucket.ViewResult, what string) {
	viewMatchesOpts(env, res, what, viewOpts{})
}

// viewOpts: the query options the oracle understands (each field zero = not requested).
type viewOpts struct {
	descending   bool
	limit        int
	startKey     any // Go value; compared by its canonical JSON text
	endKey       any
	exclusiveEnd bool
	slots        int // document slots of the world (0 = symbolic slots + one spare)
	coll         int64 // collection queried (0 = the first)
}

// rowLess: (emitted key, document id) order of the result, as the property states it.
func rowLess(ak []byte, aid string, bk []byte, bid string) bool {
	return verifOr(verifCollLess(ak, bk), verifAnd(verifBytesEq(ak, bk), verifCollLess([]byte(aid), []byte(bid))))
}

func viewMatchesOpts(env *verifEnv, res sgbucket.ViewResult, what string, o viewOpts) {
	db := env.db
	var want []bool
	var docs []verifDoc
	slots := o.slots
	if slots == 0 {
		slots = verifDocSlots(db) + 1
	}
	for i := 0; i < slots; i++ {
		d := verifDocSlotAny(db, i)
		docs = append(docs, d)
		coll := o.coll
		if coll == 0 {
			coll = 1
		}
		w := verifAnd(d.Present, d.Coll == coll, verifOr(d.Value != nil, d.Xattrs != nil), verifMapEmits(d))
		// the requested key range (after the descending swap: startkey is the upper end)
		lo, hi := o.startKey, o.endKey
		loIncl, hiIncl := true, !o.exclusiveEnd
		if o.descending {
			lo, hi = o.endKey, o.startKey
			loIncl, hiIncl = !o.exclusiveEnd, true
		}
		if lo != nil {
			w = verifAnd(w, verifOr(verifCollLess(verifAnyJSON(lo), verifMapKey(d)), verifAnd(loIncl, verifBytesEq(verifAnyJSON(lo), verifMapKey(d)))))
		}
		if hi != nil {
			w = verifAnd(w, verifOr(verifCollLess(verifMapKey(d), verifAnyJSON(hi)), verifAnd(hiIncl, verifBytesEq(verifAnyJSON(hi), verifMapKey(d)))))
		}
		want = append(want, w)
	}
	n := verifCount(want...)
	if o.limit > 0 {
		verifAssert(verifOr(verifAnd(n <= o.limit, len(res.Rows) == n), verifAnd(n > o.limit, len(res.Rows) == o.limit)), what+": limit keeps min(limit, matching) rows")
		// the rows kept are the first ones: no matching document that is left out sorts before a returned row
		for _, r := range res.Rows {
			for i, d := range docs {
				in := false
				for _, r2 := range res.Rows {
					in = verifOr(in, r2.ID == d.Key)
				}
				before := rowLess(verifMapKey(d), d.Key, verifAnyJSON(r.Key), r.ID)
				if o.descending {
					before = rowLess(verifAnyJSON(r.Key), r.ID, verifMapKey(d), d.Key)
				}
				verifAssert(!verifAnd(want[i], !in, before), what+": limit keeps the first rows of the ordered result")
			}
		}
	} else {
		verifAssert(len(res.Rows) == n, what+": one row per emitting current document (none from superseded, deleted-without-xattrs, other-collection documents)")
	}
	for _, r := range res.Rows {
		m := false
		for i, d := range docs {
			m = verifOr(m, verifAnd(want[i], r.ID == d.Key, verifBytesEq(verifAnyJSON(r.Key), verifMapKey(d)), verifBytesEq(verifAnyJSON(r.Value), verifMapValue(d))))
		}
		verifAssert(m, what+": every row is what the map function emits for the current version of its document")
	}
	for i := 0; i+1 < len(res.Rows); i++ {
		a, b := res.Rows[i], res.Rows[i+1]
		if o.descending {
			a, b = b, a
		}
		verifAssert(!verifCollLess(verifAnyJSON(b.Key), verifAnyJSON(a.Key)), what+": rows are ordered by collation of the emitted key")
		verifAssert(a.ID != b.ID, what+": no document appears twice")
		verifAssert(rowLess(verifAnyJSON(a.Key), a.ID, verifAnyJSON(b.Key), b.ID), what+": rows with equal keys are ordered by document id")
	}
}

const (
	verifMapA = "function(doc,meta){emit(meta.id,null)}"
	verifMapB = "function(doc,meta){emit(doc.k,meta.id)}"
)

func stepView(op int) {
	verifSymOnly()
	verifMapSource(verifMapA)
	nDocs := 1
	if verifThorough() && op != 2 && op != 3 {
		nDocs = 2 // (WriteCas and SetXattrs with two symbolic rows exceed the thorough time limit)
	}
	env := verifWorld(true, 2, nDocs)
	verifCutEvents()
	c := env.colls[0]
	ctx := context.Background()
	err := c.PutDDoc(ctx, "dd", &sgbucket.DesignDoc{Views: sgbucket.ViewMap{"v": sgbucket.ViewDef{Map: verifMapA}}})
	verifAssert(err == nil, "PutDDoc succeeds")
	res, err := c.View(ctx, "dd", "v", nil)
	verifAssert(err == nil, "first view query succeeds")
	if err != nil {
		return
	}
	viewMatches(env, res, "fresh index")
	// one more mutation, then query again: the incremental update must catch exactly it
	key := verifKey("key")
	switch op {
	case 0:
		err = c.SetRaw(key, 0, nil, verifBytesNonNil("val"))
	case 1:
		err = c.Delete(key)
	case 2:
		_, err = c.WriteCas(key, 0, verifU64("cas"), verifBytesNonNil("val"), sgbucket.Raw)
	case 3:
		_, err = c.SetXattrs(ctx, key, map[string][]byte{env.U[0]: verifBytesNonNil("xv")})
	case 4:
		_, err = env.b.PurgeTombstones()
	case 5:
		err = env.colls[1].SetRaw(key, 0, nil, verifBytesNonNil("val")) // another collection
	case 6:
		pre := verifGetDoc(env.db, 1, key)
		newCas := verifU64("newCas")
		verifAssume(verifAnd(newCas > 0, newCas < 1<<62))
		err = c.SetWithMeta(ctx, key, uint64(pre.Cas), newCas, 0, nil, verifBytesNonNil("val"), sgbucket.FeedDataTypeRaw)
	}
	_ = err
	verifReach("second-query")
	res2, err := c.View(ctx, "dd", "v", nil)
	verifAssert(err == nil, "second view query succeeds")
	if err != nil {
		return
	}
	viewMatches(env, res2, "after one more mutation")
}

func verifBytesNonNil(name string) []byte {
	b := verifBytes(name)
	verifAssume(b != nil)
	return b
}

func Harness_C12_viewSet()      { stepView(0) }
func Harness_C12_viewDelete()   { stepView(1) }
func Harness_C12_viewWriteCas() { stepView(2) }
func Harness_C12_viewXattrs()   { stepView(3) }
func Harness_C12_viewPurge()    { stepView(4) }
func Harness_C12_viewOtherColl() { stepView(5) }

func Harness_C12_viewSetWithMeta() { stepView(6) }

// C12, query options: descending, limit, startkey/endkey (+inclusive_end) are applied to the
// ordered result of the map over the current documents.
func stepViewOpts(kind int) {
	verifSymOnly()
	verifMapSource(verifMapA)
	nDocs := 2
	if verifThorough() {
		nDocs = 3
	}
	env := verifWorldN(true, 2, nDocs, 0) // read-only harness: no spare slot needed
	verifCutEvents()
	c := env.colls[0]
	ctx := context.Background()
	err := c.PutDDoc(ctx, "dd", &sgbucket.DesignDoc{Views: sgbucket.ViewMap{"v": sgbucket.ViewDef{Map: verifMapA}}})
	verifAssert(err == nil, "PutDDoc succeeds")
	params := map[string]any{}
	o := viewOpts{slots: nDocs}
	// the options act on the index rows only: which documents are indexed is stepView's
	// subject, so here every present document is a live one of this collection without xattrs
	for i := 0; i < nDocs; i++ {
		d := verifDocSlotAny(env.db, i)
		verifAssume(verifImplies(d.Present, verifAnd(d.Coll == 1, d.Value != nil, d.Xattrs == nil)))
	}
	switch kind {
	case 0:
		o.descending = true
		params["descending"] = true
	case 1:
		o.limit = 1
		params["limit"] = 1
		if verifBool("desc") {
			o.descending = true
			params["descending"] = true
		}
	case 2:
		o.startKey = verifStr("startkey")
		params["startkey"] = o.startKey
		if verifBool("desc") {
			o.descending = true
			params["descending"] = true
		}
	case 3:
		o.endKey = verifStr("endkey")
		params["endkey"] = o.endKey
		if verifBool("excl") {
			o.exclusiveEnd = true
			params["inclusive_end"] = false
		}
		if verifBool("desc") {
			o.descending = true
			params["descending"] = true
		}
	case 4:
		k := verifStr("key")
		o.startKey, o.endKey = k, k
		params["key"] = k
	}
	res, err := c.View(ctx, "dd", "v", params)
	verifAssert(err == nil, "view query succeeds")
	if err != nil {
		return
	}
	verifReach("queried")
	viewMatchesOpts(env, res, "query options", o)
}

func Harness_C12_optDescending() { stepViewOpts(0) }
func Harness_C12_optLimit()      { stepViewOpts(1) }
func Harness_C12_optStartKey()   { stepViewOpts(2) }
func Harness_C12_optEndKey()     { stepViewOpts(3) }
func Harness_C12_optKey()        { stepViewOpts(4) }

// C12, design documents: replacing or deleting a design document discards its index, a view
// always runs the function currently stored for (collection, design doc, view name).
func stepDDoc(kind int) {
	verifSymOnly()
	env := verifWorld(true, 2, 1)
	verifCutEvents()
	c := env.colls[0]
	ctx := context.Background()
	dd := func(views sgbucket.ViewMap) *sgbucket.DesignDoc { return &sgbucket.DesignDoc{Views: views} }
	err := c.PutDDoc(ctx, "dd", dd(sgbucket.ViewMap{"v": sgbucket.ViewDef{Map: verifMapA}}))
	verifAssert(err == nil, "PutDDoc succeeds")
	verifMapSource(verifMapA)
	res, err := c.View(ctx, "dd", "v", nil)
	verifAssert(err == nil, "first view query succeeds")
	if err != nil {
		return
	}
	viewMatches(env, res, "first function")
	switch kind {
	case 0: // replace the design document with another function under the same view name
		err = c.PutDDoc(ctx, "dd", dd(sgbucket.ViewMap{"v": sgbucket.ViewDef{Map: verifMapB}}))
		verifAssert(err == nil, "replacing PutDDoc succeeds")
		verifMapSource(verifMapB)
		res, err = c.View(ctx, "dd", "v", nil)
		verifAssert(err == nil, "query after replacement succeeds")
		if err == nil {
			verifReach("final-query")
			viewMatches(env, res, "replaced function")
		}
	case 1: // delete, query (missing), re-create with another function; another design document stays
		verifAssert(c.PutDDoc(ctx, "keep", dd(sgbucket.ViewMap{"v": sgbucket.ViewDef{Map: verifMapB}})) == nil, "PutDDoc succeeds")
		err = c.DeleteDDoc("dd")
		verifAssert(err == nil, "DeleteDDoc succeeds")
		_, err = c.GetDDoc("keep")
		verifAssert(err == nil, "deleting one design document leaves the collection's others alone")
		verifMapSource(verifMapB)
		res, err = c.View(ctx, "keep", "v", nil)
		verifAssert(err == nil, "the other design document's view still answers")
		if err == nil {
			viewMatches(env, res, "other design document after the delete")
		}
		_, err = c.View(ctx, "dd", "v", nil)
		verifAssert(err != nil, "a deleted design document's view is gone")
		verifAssert(c.DeleteDDoc("dd") != nil, "deleting a missing design document is an error")
		err = c.PutDDoc(ctx, "dd", dd(sgbucket.ViewMap{"v": sgbucket.ViewDef{Map: verifMapB}}))
		verifAssert(err == nil, "re-creating PutDDoc succeeds")
		verifMapSource(verifMapB)
		res, err = c.View(ctx, "dd", "v", nil)
		verifAssert(err == nil, "query after re-creation succeeds")
		if err == nil {
			verifReach("final-query")
			viewMatches(env, res, "re-created function")
		}
	case 2: // the same design document / view name in the other collection, another function
		c2 := env.colls[1]
		err = c2.PutDDoc(ctx, "dd", dd(sgbucket.ViewMap{"v": sgbucket.ViewDef{Map: verifMapB}}))
		verifAssert(err == nil, "PutDDoc in the other collection succeeds")
		res, err = c.View(ctx, "dd", "v", nil)
		verifAssert(err == nil, "query of the first collection succeeds")
		if err == nil {
			viewMatches(env, res, "first collection keeps its function and index")
		}
		verifMapSource(verifMapB)
		res, err = c2.View(ctx, "dd", "v", nil)
		verifAssert(err == nil, "query of the other collection succeeds")
		if err == nil {
			verifReach("final-query")
			viewMatchesOpts(env, res, "other collection", viewOpts{coll: 2})
		}
		// deleting the other collection's design document leaves this one alone
		verifAssert(c2.DeleteDDoc("dd") == nil, "DeleteDDoc in the other collection succeeds")
		verifMapSource(verifMapA)
		res, err = c.View(ctx, "dd", "v", nil)
		verifAssert(err == nil, "query after the other collection's delete succeeds")
		if err == nil {
			viewMatches(env, res, "first collection after the other's delete")
		}
	case 3: // the same view name in a second design document, then a write: both indexes catch it
		err = c.PutDDoc(ctx, "d2", dd(sgbucket.ViewMap{"v": sgbucket.ViewDef{Map: verifMapB}}))
		verifAssert(err == nil, "second PutDDoc succeeds")
		_ = c.SetRaw(verifKey("key"), 0, nil, verifBytesNonNil("val"))
		verifMapSource(verifMapB)
		res, err = c.View(ctx, "d2", "v", nil)
		verifAssert(err == nil, "query of the second view succeeds")
		if err == nil {
			viewMatches(env, res, "second view")
		}
		verifMapSource(verifMapA)
		res, err = c.View(ctx, "dd", "v", nil)
		verifAssert(err == nil, "query of the first view succeeds")
		if err == nil {
			verifReach("final-query")
			viewMatches(env, res, "first view after the write")
		}
	}
}

func Harness_C12_ddocReplace()         { stepDDoc(0) }
func Harness_C12_ddocDeleteRecreate()  { stepDDoc(1) }
func Harness_C12_ddocOtherCollection() { stepDDoc(2) }
func Harness_C12_ddocTwoViews()        { stepDDoc(3) }

// two views in one design document are separate indexes with separate functions
func Harness_C12_ddocTwoViewsOneDDoc() {
	verifSymOnly()
	env := verifWorld(true, 2, 1)
	verifCutEvents()
	c := env.colls[0]
	ctx := context.Background()
	err := c.PutDDoc(ctx, "dd", &sgbucket.DesignDoc{Views: sgbucket.ViewMap{"v": sgbucket.ViewDef{Map: verifMapA}, "w": sgbucket.ViewDef{Map: verifMapB}}})
	verifAssert(err == nil, "PutDDoc succeeds")
	verifMapSource(verifMapA)
	res, err := c.View(ctx, "dd", "v", nil)
	verifAssert(err == nil, "query of the first view succeeds")
	if err == nil {
		viewMatches(env, res, "first view of the design document")
	}
	verifMapSource(verifMapB)
	res, err = c.View(ctx, "dd", "w", nil)
	verifAssert(err == nil, "query of the second view succeeds")
	if err == nil {
		verifReach("final-query")
		viewMatches(env, res, "second view of the design document")
	}
}
