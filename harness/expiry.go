//go:build verif

package rosmar

import "time"

// C14-A: expiry arithmetic for every exp and every clock reading.
func Harness_C14_absoluteExpiry() {
	exp := verifU32("exp")
	t0 := nowAsExpiry()
	r := absoluteExpiry(exp)
	t1 := nowAsExpiry()
	verifAssert(expOK(exp, int64(r), t0, t1), "0 stays 0, offsets up to 30 days are added to now, larger values are absolute")
	r2 := absoluteExpiry(r)
	verifAssert(r2 == r, "absoluteExpiry is idempotent")
	if exp == 0 {
		verifReach("never")
	} else if exp <= kMaxDeltaTtl {
		verifReach("relative")
	} else {
		verifReach("absolute")
	}
}

func Harness_C14_expDuration() {
	exp := verifU32("exp")
	verifAssume(exp > kMaxDeltaTtl)
	t0 := nowAsExpiry()
	d := expDuration(exp)
	t1 := nowAsExpiry()
	lo := time.Duration(int64(exp)-int64(t1)) * time.Second
	hi := time.Duration(int64(exp)-int64(t0)) * time.Second
	verifAssert(verifAnd(d >= lo, d <= hi), "expDuration is the time left until the expiry")
	verifReach("done")
}

// C14-B: the expiry manager keeps the earliest deadline.
func Harness_C14_schedule() {
	ne := verifU32("ne")
	verifAssume(verifOr(ne == 0, ne > kMaxDeltaTtl))
	em := newExpirationManager(func() {})
	em.setNext(ne)
	exp := verifU32("exp")
	verifAssume(verifOr(exp == 0, exp > kMaxDeltaTtl))
	em.scheduleExpirationAtOrBefore(exp)
	got := *em.nextExp
	verifAssert(verifImplies(verifAnd(exp == 0, ne == 0), got == 0), "nothing to schedule")
	verifAssert(verifImplies(exp != 0, verifAnd(got != 0, got <= exp, verifTimerArmed(em.timer))), "scheduled at or before the requested expiry")
	verifAssert(verifImplies(ne != 0, verifAnd(got != 0, got <= ne, verifTimerArmed(em.timer))), "never later than what was already scheduled")
	verifAssert(verifOr(got == ne, got == exp), "schedules one of the two")
	verifAssert(verifImplies(got != 0, verifTimerWithin(em.timer, got)), "sym-only: timer duration is at most (scheduled expiry - now)")
	if got == exp && exp != ne {
		verifReach("advanced")
	} else {
		verifReach("kept")
	}
}

func Harness_C14_addRaw()   { stepAdd(pC14, true) }
func Harness_C14_setRaw()   { stepSet(pC14) }
func Harness_C14_writeCas() { stepWriteCas(pC14) }
func Harness_C14_touch()    { stepTouch(pC14) }
func Harness_C14_incr()     { stepIncr(pC14) }
func Harness_C14_writeWithXattrs() { stepXattr(pC14, xWriteWithXattrs) }

// C14-C: the timer fires at an arbitrary instant: every document whose expiry
// has passed becomes a tombstone, none whose expiry lies ahead is touched, and
// the timer is re-armed for the earliest remaining expiry.
func Harness_C14_fire() {
	env := verifWorld(true, 2, 2)
	db := env.db
	var pre []verifDoc
	for i := 0; i < verifDocSlots(db); i++ {
		pre = append(pre, verifDocSlot(db, i))
	}
	t0 := nowAsExpiry()
	verifTimerFiresAllowed = true
	env.b.expManager.runExpiry()
	t1 := nowAsExpiry()
	em := env.b.expManager
	for _, p := range pre {
		post := verifGetDoc(db, p.Coll, p.Key)
		due := verifAnd(p.Present, p.Value != nil, p.Exp > 0, p.Exp <= int64(t0))
		ahead := verifAnd(p.Present, verifOr(p.Exp == 0, p.Exp > int64(t1)))
		verifAssert(verifImplies(due, verifAnd(post.Present, post.Value == nil, post.Tombstone == 1)), "a document whose expiry has passed is tombstoned when the timer fires")
		verifAssert(verifImplies(ahead, verifAnd(post.Present, verifBytesEq(post.Value, p.Value), post.Cas == p.Cas, post.Exp == p.Exp, post.Rev == p.Rev)), "a document whose expiry lies ahead is not touched")
		verifAssert(verifImplies(verifAnd(post.Present, post.Exp > 0), verifAnd(*em.nextExp != 0, int64(*em.nextExp) <= post.Exp, verifTimerArmed(em.timer))), "after firing, the timer is armed for the earliest remaining expiry")
	}
	verifReach("fired")
}

// C11: the expiry pass of one collection leaves every other collection alone,
// even when the same key exists (and has expired) elsewhere.
func Harness_C11_expireOneCollection() {
	env := verifWorld(true, 2, 2)
	db := env.db
	var pre []verifDoc
	for i := 0; i < verifDocSlots(db); i++ {
		pre = append(pre, verifDocSlot(db, i))
	}
	verifTimerFiresAllowed = true
	_, err := env.colls[1].expireDocuments()
	verifAssert(err == nil, "expiry pass succeeds")
	for _, p := range pre {
		post := verifGetDoc(db, p.Coll, p.Key)
		same := verifAnd(post.Present, verifBytesEq(post.Value, p.Value), post.Cas == p.Cas, post.Exp == p.Exp, post.Rev == p.Rev, post.Tombstone == p.Tombstone)
		verifAssert(verifImplies(verifAnd(p.Present, p.Coll == 1), same), "expiring one collection's documents changes no document of another collection")
		verifAssert(verifImplies(verifAnd(p.Present, p.Coll == 2, p.Exp == 0), same),
			"a document without an expiry is not expired because the same key has expired in another collection")
	}
	verifReach("done")
}

// C14: "through whichever entry point it was set": the remaining entry points that carry an
// expiry (or clear it)
func Harness_C14_update()            { stepUpdate(pC14) }
func Harness_C14_setWithMeta()       { stepWithMeta(pC14, false) }
func Harness_C14_updateXattrs()      { stepXattr(pC14, xUpdateXattrs) }
func Harness_C14_writeTombstone()    { stepXattr(pC14, xWriteTombstone) }
func Harness_C14_writeResurrection() { stepXattr(pC14, xWriteResurrection) }
func Harness_C14_updateXattrDelBody() { stepXattr(pC14, xUpdateXattrDeleteBody) }
func Harness_C14_remove()            { stepRemove(pC14, true) }
