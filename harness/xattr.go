//go:build verif

package rosmar

import (
	"context"
	"errors"

	sgbucket "github.com/couchbase/sg-bucket"
)

// Xattr entry points, one step from an arbitrary invariant-satisfying state.
const (
	xSetXattrs = iota
	xRemoveXattrs
	xDeleteSubDocPaths
	xWriteWithXattrs
	xUpdateXattrs
	xWriteTombstone
	xWriteResurrection
	xUpdateXattrDeleteBody
	xDeleteWithXattrs
)

type xArgs struct {
	set    map[string][]byte // names -> values to set
	setOn  []bool            // per universe element
	setVal [][]byte
	del    []string
	delOn  []bool
	cas    uint64
	exp    uint32
	body   []byte
}

func xMakeArgs(k *kvCtx, wantSet, wantDel, allowNil bool) *xArgs {
	a := &xArgs{set: map[string][]byte{}, cas: verifU64("cas"), exp: verifU32("exp")}
	for i, u := range k.env.U {
		on := false
		var v []byte
		if wantSet {
			on = verifBool("set" + string(rune('0'+i)))
		}
		if on {
			v = verifBytes("xv" + string(rune('0'+i)))
			if !allowNil {
				verifAssume(v != nil) // a nil value is not a value to set (entry points that validate it are given nil too)
			}
			verifPrefer(verifBytesEq(verifJSONCanon(v), v))
			a.set[u] = v
		}
		a.setOn = append(a.setOn, on)
		a.setVal = append(a.setVal, v)
		d := false
		if wantDel && !on {
			d = verifBool("del" + string(rune('0'+i)))
		}
		if d {
			a.del = append(a.del, u)
		}
		a.delOn = append(a.delOn, d)
	}
	return a
}

// xattrsAfter: every universe element is either set to the canonical form of
// the given value, removed, or exactly as in `base` (nil base = none).
func (k *kvCtx) xattrsAfter(a *xArgs, base verifDoc, baseKeepsUserOnly, baseNone bool, post verifDoc) bool {
	r := true
	for i, u := range k.env.U {
		switch {
		case a.setOn[i]:
			r = verifAnd(r, verifXattrHas(post.Xattrs, u), verifBytesEq(verifXattrGet(post.Xattrs, u), verifJSONCanon(a.setVal[i])))
		case a.delOn[i]:
			r = verifAnd(r, !verifXattrHas(post.Xattrs, u))
		case baseNone:
			r = verifAnd(r, !verifXattrHas(post.Xattrs, u))
		case baseKeepsUserOnly:
			sys := verifIsSystemXattr(u)
			r = verifAnd(r, verifImplies(!sys, !verifXattrHas(post.Xattrs, u)),
				verifImplies(sys, verifAnd(verifXattrHas(post.Xattrs, u) == verifXattrHas(base.Xattrs, u),
					verifBytesEq(verifXattrGet(post.Xattrs, u), verifXattrGet(base.Xattrs, u)))))
		default:
			r = verifAnd(r, verifXattrHas(post.Xattrs, u) == verifXattrHas(base.Xattrs, u),
				verifBytesEq(verifXattrGet(post.Xattrs, u), verifXattrGet(base.Xattrs, u)))
		}
	}
	return r
}

func stepXattr(mask int, ep int) {
	k := kvBegin(mask)
	ctx := context.Background()
	var a *xArgs
	var err error
	var casOut uint64
	casChecked := false   // entry point carries an expected CAS
	bodyGiven := false    // entry point writes a body
	bodyDeleted := false  // entry point removes the body
	expGiven := false
	switch ep {
	case xSetXattrs:
		a = xMakeArgs(k, true, false, false)
		casOut, err = k.c.SetXattrs(ctx, k.key, a.set)
	case xRemoveXattrs:
		a = xMakeArgs(k, false, true, false)
		err = k.c.RemoveXattrs(ctx, k.key, a.del, a.cas)
		casChecked = true
	case xDeleteSubDocPaths:
		a = xMakeArgs(k, false, true, false)
		err = k.c.DeleteSubDocPaths(ctx, k.key, a.del...)
	case xWriteWithXattrs:
		a = xMakeArgs(k, true, true, true)
		a.body = verifBytes("body")
		casOut, err = k.c.WriteWithXattrs(ctx, k.key, a.exp, a.cas, a.body, a.set, a.del, nil)
		casChecked, expGiven = true, true
		bodyGiven = a.body != nil
	case xUpdateXattrs:
		a = xMakeArgs(k, true, false, false)
		casOut, err = k.c.UpdateXattrs(ctx, k.key, a.exp, a.cas, a.set, nil)
		casChecked, expGiven = true, true
	case xWriteTombstone:
		a = xMakeArgs(k, true, true, true)
		deleteBody := verifBool("deleteBody")
		casOut, err = k.c.WriteTombstoneWithXattrs(ctx, k.key, a.exp, a.cas, a.set, a.del, deleteBody, nil)
		casChecked, expGiven, bodyDeleted = true, true, true
	case xWriteResurrection:
		a = xMakeArgs(k, true, false, true)
		a.body = verifBytes("body")
		casOut, err = k.c.WriteResurrectionWithXattrs(ctx, k.key, a.exp, a.body, a.set, nil)
		expGiven, bodyGiven = true, true
	case xUpdateXattrDeleteBody:
		a = xMakeArgs(k, false, false, false)
		xv := verifBytes("xv")
		verifAssume(xv != nil)
		verifPrefer(verifBytesEq(verifJSONCanon(xv), xv))
		a.setOn[0], a.setVal[0] = true, xv
		casOut, err = k.c.UpdateXattrDeleteBody(ctx, k.key, k.env.U[0], a.exp, a.cas, xv, nil)
		casChecked, expGiven, bodyDeleted = true, true, true
	case xDeleteWithXattrs:
		a = xMakeArgs(k, false, true, false)
		err = k.c.DeleteWithXattrs(ctx, k.key, a.del)
		bodyDeleted = true
	}
	post := k.post()
	if err != nil {
		k.failed("refused")
		return
	}
	verifReach("applied")
	t1 := nowAsExpiry()
	if k.want(pC02) && casChecked {
		verifAssert(verifOr(verifAnd(k.pre.Present, uint64(k.pre.Cas) == a.cas), verifAnd(!k.pre.Present, a.cas == 0)),
			"a write carrying an expected CAS is applied only if it equals the current CAS (0 = no such document)")
	}
	if k.want(pC06) && ep == xWriteResurrection {
		verifAssert(!k.pre.hasBody(), "WriteResurrectionWithXattrs succeeds only if the key has no body")
	}
	if k.want(pC06) && ep == xWriteWithXattrs && a.cas == 0 {
		verifAssert(!k.pre.Present, "WriteWithXattrs with CAS 0 succeeds only if the key does not exist at all")
	}
	k.mutated(post, true)
	if k.want(pC07 | pC02) && casChecked {
		if ep != xRemoveXattrs {
			verifAssert(casOut == uint64(post.Cas), "returned CAS is the stored CAS")
		}
	}
	if k.want(pC07 | pC05) {
		resurrect := bodyGiven && !k.pre.hasBody()
		verifAssert(k.xattrsAfter(a, k.pre, bodyDeleted, resurrect || !k.pre.Present, post),
			"named xattrs are set/removed, every other xattr is intact (user xattrs dropped by a delete, all dropped by a resurrection)")
	}
	if k.want(pC07) {
		switch {
		case bodyGiven:
			verifAssert(verifBytesEq(post.Value, a.body), "body stored as given")
			if a.body != nil {
				verifAssert(post.IsJSON == 1, "a body written through the xattr entry points is a JSON document (whatever the flag of the version it replaces)")
			}
		case bodyDeleted:
			verifAssert(post.Value == nil, "body removed")
		default:
			verifAssert(verifAnd(verifBytesEq(post.Value, k.pre.Value), post.IsJSON == verifIfI64(k.pre.Present, k.pre.IsJSON, post.IsJSON)), "an xattr write leaves the body byte-for-byte intact")
		}
		if expGiven {
			if !bodyDeleted {
				verifAssert(expOK(a.exp, post.Exp, k.t0, t1), "expiry stored as given (absolute form)")
			}
		} else if k.pre.Present && !bodyDeleted {
			verifAssert(post.Exp == k.pre.Exp, "an xattr write that gives no expiry leaves it intact")
		}
	}
	if k.want(pC05) && bodyDeleted {
		verifAssert(verifAnd(post.Value == nil, post.Tombstone == 1), "body-deleting xattr write yields a tombstone")
	}
	_ = sgbucket.ErrKeyExists
}

func Harness_C07_setXattrs()          { stepXattr(pC07, xSetXattrs) }
func Harness_C07_removeXattrs()       { stepXattr(pC07, xRemoveXattrs) }
func Harness_C07_deleteSubDocPaths()  { stepXattr(pC07, xDeleteSubDocPaths) }
func Harness_C07_writeWithXattrs()    { stepXattr(pC07, xWriteWithXattrs) }
func Harness_C07_updateXattrs()       { stepXattr(pC07, xUpdateXattrs) }
func Harness_C07_writeTombstone()     { stepXattr(pC07, xWriteTombstone) }
func Harness_C07_writeResurrection()  { stepXattr(pC07, xWriteResurrection) }
func Harness_C07_updateXattrDelBody() { stepXattr(pC07, xUpdateXattrDeleteBody) }
func Harness_C07_deleteWithXattrs()   { stepXattr(pC07, xDeleteWithXattrs) }

func Harness_C02_removeXattrs()    { stepXattr(pC02, xRemoveXattrs) }
func Harness_C02_writeWithXattrs() { stepXattr(pC02, xWriteWithXattrs) }
func Harness_C02_updateXattrs()    { stepXattr(pC02, xUpdateXattrs) }
func Harness_C02_writeTombstone()  { stepXattr(pC02, xWriteTombstone) }

func Harness_C05_setXattrs()         { stepXattr(pC05, xSetXattrs) }
func Harness_C05_writeWithXattrs()   { stepXattr(pC05, xWriteWithXattrs) }
func Harness_C05_writeTombstone()    { stepXattr(pC05, xWriteTombstone) }
func Harness_C05_writeResurrection() { stepXattr(pC05, xWriteResurrection) }
func Harness_C05_deleteWithXattrs()  { stepXattr(pC05, xDeleteWithXattrs) }
func Harness_C05_updateXattrDelBody() { stepXattr(pC05, xUpdateXattrDeleteBody) }

func Harness_C06_writeResurrection() { stepXattr(pC06, xWriteResurrection) }
func Harness_C06_writeWithXattrs()   { stepXattr(pC06, xWriteWithXattrs) }

func Harness_C17_setXattrs()         { stepXattr(pC17, xSetXattrs) }
func Harness_C17_removeXattrs()      { stepXattr(pC17, xRemoveXattrs) }
func Harness_C17_deleteSubDocPaths() { stepXattr(pC17, xDeleteSubDocPaths) }
func Harness_C17_writeWithXattrs()   { stepXattr(pC17, xWriteWithXattrs) }
func Harness_C17_writeTombstone()    { stepXattr(pC17, xWriteTombstone) }
func Harness_C17_writeResurrection() { stepXattr(pC17, xWriteResurrection) }
func Harness_C17_deleteWithXattrs()  { stepXattr(pC17, xDeleteWithXattrs) }

func Harness_C11_setXattrs()       { stepXattr(pC11, xSetXattrs) }
func Harness_C11_writeWithXattrs() { stepXattr(pC11, xWriteWithXattrs) }
func Harness_C11_writeTombstone()  { stepXattr(pC11, xWriteTombstone) }
func Harness_C11_deleteWithXattrs() { stepXattr(pC11, xDeleteWithXattrs) }

// ---------- WithMeta entry points ----------

func stepWithMeta(mask int, del bool) {
	k := kvBegin(mask)
	ctx := context.Background()
	oldCas, newCas := verifU64("oldCas"), verifU64("newCas")
	verifAssume(verifAnd(newCas > 0, newCas < 1<<62)) // a CAS the driver can store
	exp := verifU32("exp")
	verifAssume(verifOr(exp == 0, exp > kMaxDeltaTtl)) // WithMeta takes an absolute expiry
	xattrs := verifXattrsBlob("xattrs")
	verifAssume(verifXattrsWellFormed(xattrs))
	var body []byte
	var err error
	if del {
		err = k.c.DeleteWithMeta(ctx, k.key, oldCas, newCas, exp, xattrs)
	} else {
		body = verifBytes("body")
		verifAssume(body != nil)
		isJSON := verifBool("json")
		dt := sgbucket.FeedDataTypeRaw
		if isJSON {
			dt = sgbucket.FeedDataTypeJSON
		}
		err = k.c.SetWithMeta(ctx, k.key, oldCas, newCas, exp, xattrs, body, dt)
	}
	post := k.post()
	casOK := verifOr(verifAnd(k.pre.Present, uint64(k.pre.Cas) == oldCas), verifAnd(!k.pre.Present, oldCas == 0))
	if err != nil {
		k.failed("refused")
		if k.want(pC02 | pC01) {
			verifAssert(!casOK, "a WithMeta write whose expected CAS is current (0 = no such document) is applied")
		}
		return
	}
	verifReach("applied")
	if k.want(pC02 | pC01) {
		verifAssert(casOK, "a WithMeta write is applied only if the expected CAS is current (0 = no such document)")
	}
	if k.want(pC01 | pC07) {
		verifAssert(verifAnd(post.Present, uint64(post.Cas) == newCas, post.Exp == int64(exp), verifBytesEq(post.Xattrs, xattrs), verifBytesEq(post.Value, body)),
			"a WithMeta write stores exactly the given body, xattrs, CAS and expiry")
	}
	k.mutated(post, false)
	if k.want(pC08) {
		k.checkEvents(post)
	}
	if k.want(pC05) {
		verifAssert((post.Tombstone == 1) == del, "SetWithMeta yields a live document, DeleteWithMeta a tombstone")
	}
}

func Harness_C01_setWithMeta()    { stepWithMeta(pC01, false) }
func Harness_C01_deleteWithMeta() { stepWithMeta(pC01, true) }
func Harness_C02_setWithMeta()    { stepWithMeta(pC02, false) }
func Harness_C02_deleteWithMeta() { stepWithMeta(pC02, true) }
func Harness_C05_setWithMeta()    { stepWithMeta(pC05, false) }
func Harness_C05_deleteWithMeta() { stepWithMeta(pC05, true) }
func Harness_C08_setWithMeta()    { stepWithMeta(pC08, false) }
func Harness_C08_deleteWithMeta() { stepWithMeta(pC08, true) }
func Harness_C17_setWithMeta()    { stepWithMeta(pC17, false) }
func Harness_C17_deleteWithMeta() { stepWithMeta(pC17, true) }

// C07: CAS / CRC32c macro expansions inside a combined write resolve to that write's
// new CAS and to the checksum of the body as stored.
func Harness_C07_macroExpansion() {
	P := verifPropUniverse(2, map[string]any{}, 1)
	k := kvBegin(pC07)
	ctx := context.Background()
	u := k.env.U[0]
	verifAssume(validateXattrKey(u) == nil)
	xv := verifBytes("xv")
	verifAssume(verifAnd(xv != nil, verifObjIs(xv), verifObjWellFormed(xv)))
	verifPrefer(verifBytesEq(verifJSONCanon(xv), xv))
	body := verifBytes("body")
	cas := verifU64("cas")
	exp := verifU32("exp")
	opts := &sgbucket.MutateInOptions{MacroExpansion: []sgbucket.MacroExpansionSpec{
		{Path: u + "." + P[0], Type: sgbucket.MacroCas},
		{Path: u + "." + P[1], Type: sgbucket.MacroCrc32c},
	}}
	casOut, err := k.c.WriteWithXattrs(ctx, k.key, exp, cas, body, map[string][]byte{u: xv}, nil, opts)
	post := k.post()
	if err != nil {
		k.failed("refused")
		return
	}
	verifReach("applied")
	stored := verifXattrGet(post.Xattrs, u)
	verifAssert(verifAnd(casOut == uint64(post.Cas), verifXattrHas(post.Xattrs, u), verifObjIs(stored)), "the xattr is stored as an object under the new CAS")
	verifAssert(verifBytesEq(verifObjGet(stored, P[0]), verifMacroCasJSON(uint64(post.Cas))), "the CAS macro expands to the CAS this write stored")
	verifAssert(verifBytesEq(verifObjGet(stored, P[1]), verifMacroCrcJSON(post.Value)), "the CRC32c macro expands to the checksum of the body as stored")
}

func Harness_C11_removeXattrs()       { stepXattr(pC11, xRemoveXattrs) }
func Harness_C11_deleteSubDocPaths()  { stepXattr(pC11, xDeleteSubDocPaths) }
func Harness_C11_updateXattrs()       { stepXattr(pC11, xUpdateXattrs) }
func Harness_C11_writeResurrection()  { stepXattr(pC11, xWriteResurrection) }
func Harness_C11_updateXattrDelBody() { stepXattr(pC11, xUpdateXattrDeleteBody) }
func Harness_C11_setWithMeta()        { stepWithMeta(pC11, false) }
func Harness_C11_deleteWithMeta()     { stepWithMeta(pC11, true) }
func Harness_C11_remove()             { stepRemove(pC11, true) }
func Harness_C11_update()             { stepUpdate(pC11) }

// C07: a macro addressed to one xattr leaves another xattr written in the same call exactly
// as given — for any two names (one may be a prefix of the other).
func Harness_C07_macroOtherXattr() {
	P := verifPropUniverse(2, map[string]any{}, 1)
	k := kvBegin(pC07)
	ctx := context.Background()
	u, u1 := k.env.U[0], k.env.U[1]
	verifAssume(verifAnd(validateXattrKey(u) == nil, validateXattrKey(u1) == nil))
	verifAssume(!k.pre.Present) // the macro semantics do not depend on the prior document
	xv, xv1 := verifBytes("xv"), verifBytes("xv1")
	verifAssume(verifAnd(xv != nil, verifObjIs(xv), verifObjWellFormed(xv), len(xv) < 1000))
	verifAssume(verifAnd(xv1 != nil, verifObjIs(xv1), verifObjWellFormed(xv1), len(xv1) < 1000))
	verifPrefer(verifAnd(verifBytesEq(verifJSONCanon(xv), xv), verifBytesEq(verifJSONCanon(xv1), xv1)))
	opts := &sgbucket.MutateInOptions{MacroExpansion: []sgbucket.MacroExpansionSpec{{Path: u + "." + P[0], Type: sgbucket.MacroCas}}}
	_, err := k.c.WriteWithXattrs(ctx, k.key, 0, 0, []byte("{}"), map[string][]byte{u: xv, u1: xv1}, nil, opts)
	post := k.post()
	if err != nil {
		k.failed("refused")
		return
	}
	verifReach("applied")
	verifAssert(verifBytesEq(verifObjGet(verifXattrGet(post.Xattrs, u), P[0]), verifMacroCasJSON(uint64(post.Cas))), "the CAS macro expands inside the addressed xattr")
	verifAssert(verifBytesEq(verifXattrGet(post.Xattrs, u1), verifJSONCanon(xv1)), "an xattr that no macro addresses is stored exactly as given")
}

// WriteUpdateWithXattrs with a callback that answers in one of four ways.
func stepWriteUpdate(mask int) {
	k := kvBegin(mask)
	ctx := context.Background()
	u0, u1 := k.env.U[0], k.env.U[1]
	verifAssume(verifAnd(validateXattrKey(u0) == nil, validateXattrKey(u1) == nil))
	newBody := verifBytes("new")
	verifAssume(verifAnd(newBody != nil, len(newBody) > 0))
	xv := verifBytes("xv")
	verifAssume(xv != nil)
	verifPrefer(verifBytesEq(verifJSONCanon(xv), xv))
	mode := verifChoose("cb", 4)
	cbErr := errors.New("callback refused")
	var shownBody []byte
	var shownCas uint64
	calls := 0
	a := &xArgs{setOn: []bool{true, false}, setVal: [][]byte{xv, nil}, delOn: []bool{false, false}}
	casOut, err := k.c.WriteUpdateWithXattrs(ctx, k.key, []string{u0, u1}, 0, nil, &sgbucket.MutateInOptions{},
		func(doc []byte, xattrs map[string][]byte, cas uint64) (sgbucket.UpdatedDoc, error) {
			shownBody, shownCas = doc, cas
			calls++
			switch mode {
			case 0:
				return sgbucket.UpdatedDoc{Doc: newBody, Xattrs: map[string][]byte{u0: xv}}, nil
			case 1:
				return sgbucket.UpdatedDoc{IsTombstone: true, Xattrs: map[string][]byte{u0: xv}}, nil
			case 2:
				return sgbucket.UpdatedDoc{Xattrs: map[string][]byte{u0: xv}}, nil
			}
			return sgbucket.UpdatedDoc{}, cbErr
		})
	post := k.post()
	if k.want(pC01 | pC07) {
		verifAssert(calls >= 1, "the callback is invoked")
		verifAssert(verifOr(verifAnd(k.pre.Present, verifBytesEq(shownBody, k.pre.Value), shownCas == uint64(k.pre.Cas)), verifAnd(!k.pre.Present, shownBody == nil, shownCas == 0)),
			"the callback is shown the current body and CAS")
	}
	if mode == 3 {
		verifReach("callback-error")
		verifAssert(verifAnd(err == cbErr, verifSameDB(k.env.db, k.snap)), "a WriteUpdateWithXattrs whose callback fails returns that error and changes nothing")
		return
	}
	if err != nil {
		k.failed("refused")
		return
	}
	verifReach("applied")
	if k.want(pC07 | pC01) {
		verifAssert(casOut == uint64(post.Cas), "returned CAS is the stored CAS")
	}
	k.mutated(post, true)
	switch mode {
	case 0:
		if k.want(pC07 | pC05 | pC01) {
			verifAssert(verifAnd(verifBytesEq(post.Value, newBody), post.Tombstone == 0), "the callback's body is stored and the document is live")
			verifAssert(k.xattrsAfter(a, k.pre, false, !k.pre.hasBody(), post), "the callback's xattr is set; other xattrs are intact (dropped when a tombstone is resurrected)")
		}
	case 1:
		if k.want(pC07 | pC05 | pC01) {
			verifAssert(verifAnd(post.Value == nil, post.Tombstone == 1), "a tombstoning callback leaves a tombstone")
			verifAssert(k.xattrsAfter(a, k.pre, true, !k.pre.Present, post), "the callback's xattr is set; user xattrs are dropped, system xattrs kept")
		}
	case 2:
		if k.want(pC07 | pC01) {
			verifAssert(verifBytesEq(post.Value, k.pre.Value), "an xattr-only callback leaves the body byte-for-byte intact")
			verifAssert(k.xattrsAfter(a, k.pre, false, !k.pre.Present, post), "the callback's xattr is set; every other xattr is intact")
		}
	}
}

func Harness_C07_writeUpdate() { stepWriteUpdate(pC07) }
func Harness_C05_writeUpdate() { stepWriteUpdate(pC05) }
func Harness_C01_writeUpdate() { stepWriteUpdate(pC01) }
func Harness_C17_writeUpdate() { stepWriteUpdate(pC17) }
func Harness_C08_writeUpdate() { stepWriteUpdate(pC08) }

// C17: the RevNo of the live feed event is the stored revision number (event oracle of C08)
func Harness_C17_eventSet()      { stepSet(pC08) }
func Harness_C17_eventWriteCas() { stepWriteCas(pC08) }
func Harness_C17_eventXattrs()   { stepXattr(pC08, xDeleteSubDocPaths) }
func Harness_C17_eventRemove()   { stepRemove(pC08, false) }
