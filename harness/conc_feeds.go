//go:build verif

package rosmar

import (
	"context"

	sgbucket "github.com/couchbase/sg-bucket"
)

// C08-B: two concurrent writers, one live feed: events reach the feed in increasing CAS order.
func Harness_C08_orderTwoWriters() {
	ce := concBeginN(true, false, 0)
	f := verifAddFeed(ce.c1, false)
	var e1, e2 error
	verifExplore(verifPreemptions())
	go func() { e1 = ce.c1.SetRaw("k1", 0, nil, []byte("one")) }()
	go func() { e2 = ce.c2.SetRaw("k2", 0, nil, []byte("two")) }()
	verifJoin()
	verifAssert(verifLiveThreads() == 0, "both writers terminate")
	verifAssert(verifAnd(e1 == nil, e2 == nil), "concurrent writers succeed")
	n := f.events.list.Len()
	verifAssert(n == 2, "exactly one event per successful mutation")
	if n == 2 {
		a := f.events.pull()
		b := f.events.pull()
		verifAssert(a.Cas < b.Cas, "events of one collection reach a feed in increasing CAS order")
	}
	verifReach("done")
}

type verifSeen struct {
	key string
	cas uint64
	op  sgbucket.FeedOpcode
}

// C09-B: a feed started with backfill while a writer commits: the writer's
// final version is delivered by backfill or live — never lost in between.
func Harness_C09_startVsWriter() {
	ce := concBeginN(false, false, 0)
	var seen []verifSeen
	var e1, e2 error
	args := sgbucket.FeedArguments{ID: "f", Backfill: 0}
	cb := func(ev sgbucket.FeedEvent) bool {
		seen = append(seen, verifSeen{key: string(ev.Key), cas: ev.Cas, op: ev.Opcode})
		return true
	}
	verifExplore(verifPreemptions())
	go func() { e1 = ce.c1.SetRaw("k1", 0, nil, []byte("one")) }()
	go func() { e2 = ce.c2.StartDCPFeed(context.Background(), args, cb, nil) }()
	verifJoin()
	verifAssert(verifAnd(e1 == nil, e2 == nil), "writer and feed start succeed")
	d := verifGetDoc(ce.env.db, 1, "k1")
	found := false
	for _, s := range seen {
		if s.key == "k1" && s.cas == uint64(d.Cas) {
			found = true
		}
	}
	verifAssert(found, "a mutation that commits while the feed is starting is delivered by backfill or live")
	verifReach("done")
}

// C09 through the public entry point: StartDCPFeed with Backfill = a CAS delivers exactly the
// documents at or above it (then goes live); Backfill = 0 delivers everything.
func Harness_C09_startFromCas() {
	le := lifeBegin(true)
	ctx := context.Background()
	verifAssert(le.c1.SetRaw("a", 0, nil, []byte("va")) == nil, "write succeeds")
	verifAssert(le.c1.SetRaw("b", 0, nil, []byte("vb")) == nil, "write succeeds")
	da := verifGetDoc(le.h1.sqliteDB, 1, "a")
	db := verifGetDoc(le.h1.sqliteDB, 1, "b")
	from := uint64(db.Cas)
	if verifBool("fromZero") {
		from = 0
	}
	term := make(chan bool)
	verifAssert(le.c2.StartDCPFeed(ctx, sgbucket.FeedArguments{ID: "f", Backfill: from, Terminator: term}, le.callback, nil) == nil, "feed starts")
	verifJoin()
	sawA, sawB := false, false
	for _, s := range le.seen {
		sawA = sawA || (s.key == "a" && s.cas == uint64(da.Cas))
		sawB = sawB || (s.key == "b" && s.cas == uint64(db.Cas))
	}
	verifAssert(sawB, "backfill delivers the document at the start CAS")
	verifAssert(sawA == (from == 0), "backfill delivers a document below the start CAS only when asked to start from 0")
	verifAssert(le.c1.SetRaw("c", 0, nil, []byte("vc")) == nil, "write succeeds")
	verifJoin()
	verifAssert(le.sawKey("c"), "after the backfill the feed is live")
	close(term)
	verifJoin()
	verifReach("done")
}
