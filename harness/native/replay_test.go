//go:build verif && verifnative

package rosmar

import (
	"encoding/json"
	"fmt"
	"os"
	"testing"
)

// TestVerifReplay runs one harness natively on a solver model.
func TestVerifReplay(t *testing.T) {
	mf := os.Getenv("VERIF_REPLAY")
	if mf == "" {
		t.Skip("no model")
	}
	b, err := os.ReadFile(mf)
	if err != nil {
		t.Fatal(err)
	}
	var doc struct {
		Harness string            `json:"harness"`
		Model   map[string]string `json:"model"`
	}
	if err := json.Unmarshal(b, &doc); err != nil {
		t.Fatal(err)
	}
	verifModel = doc.Model
	fn, ok := verifHarnesses[doc.Harness]
	if !ok {
		t.Fatalf("unknown harness %s", doc.Harness)
	}
	func() {
		defer func() {
			if r := recover(); r != nil {
				if _, ok := r.(verifStop); ok {
					return
				}
				verifRes.Panic = fmt.Sprint(r)
			}
		}()
		fn()
	}()
	out, _ := json.Marshal(verifRes)
	if rf := os.Getenv("VERIF_RESULT"); rf != "" {
		os.WriteFile(rf, out, 0o644)
	}
	fmt.Println("VERIF-RESULT", string(out))
}
