//go:build verif && verifnative

package rosmar

// Native implementations of the harness intrinsics: inputs come from a solver
// model (JSON), the database is a real SQLite database installed row by row
// from the model, assertions are evaluated on the real build.

import (
	"bytes"
	"database/sql"
	"encoding/json"
	"fmt"
	"os"
	"sort"
	"strconv"
	"strings"
	"sync/atomic"
	"time"

	sgbucket "github.com/couchbase/sg-bucket"
)

type verifReplayResult struct {
	Failed         []string `json:"failed"`
	Reached        []string `json:"reached"`
	AssumeViolated []string `json:"assume_violated"`
	Panic          string   `json:"panic"`
	MissingInputs  []string `json:"missing_inputs"`
	Notes          []string `json:"notes"`
}

var (
	verifModel    map[string]string
	verifCounters = map[string]int{}
	verifRes      verifReplayResult
	verifDBs      []*verifNativeDB
	verifSnaps    []map[string][]string
	verifUniv     []string
)

type verifNativeDB struct {
	db     *sql.DB
	nDocs  int
	nColls int
	bucket *Bucket
}

type verifStop struct{ why string }

func verifSanitize(n string) string {
	var b strings.Builder
	for _, c := range n {
		if c >= 'a' && c <= 'z' || c >= 'A' && c <= 'Z' || c >= '0' && c <= '9' || c == '_' || c == '!' || c == '.' {
			b.WriteRune(c)
		} else {
			b.WriteByte('_')
		}
	}
	return b.String()
}

func verifInputName(name string) string {
	p := "in_" + name
	k := verifCounters[p]
	verifCounters[p] = k + 1
	if k > 0 {
		p = fmt.Sprintf("%s!%d", p, k)
	}
	return verifSanitize(p)
}

func verifLookup(full string) (string, bool) {
	v, ok := verifModel[full]
	if !ok {
		verifRes.MissingInputs = append(verifRes.MissingInputs, full)
		return "", false
	}
	if len(v) >= 2 && v[1] == ':' {
		return v[2:], true
	}
	return v, true
}

func verifLookupU64(full string) uint64 {
	v, ok := verifLookup(full)
	if !ok {
		return 0
	}
	if strings.HasPrefix(v, "-") {
		i, _ := strconv.ParseInt(v, 10, 64)
		return uint64(i)
	}
	u, _ := strconv.ParseUint(v, 10, 64)
	return u
}

func verifLookupBool(full string) bool {
	v, _ := verifLookup(full)
	return v == "true"
}

func verifU64(name string) uint64 { return verifLookupU64(verifInputName(name)) }
func verifU32(name string) uint32 { return uint32(verifLookupU64(verifInputName(name))) }
func verifInt(name string) int    { return int(int64(verifLookupU64(verifInputName(name)))) }
func verifBool(name string) bool  { return verifLookupBool(verifInputName(name)) }
func verifStr(name string) string { v, _ := verifLookup(verifInputName(name)); return v }
func verifKey(name string) string { v, _ := verifLookup(verifInputName(name)); return v }
func verifBytes(name string) []byte {
	isNil := verifLookupBool(verifInputName(name + ".nil"))
	v, _ := verifLookup(verifInputName(name))
	if isNil {
		return nil
	}
	return []byte(v)
}

var verifAssumeCount int

func verifAssume(c bool) {
	verifAssumeCount++
	if !c {
		verifRes.AssumeViolated = append(verifRes.AssumeViolated, fmt.Sprintf("assumption #%d", verifAssumeCount))
		panic(verifStop{"assumption violated"})
	}
}
func verifAssert(c bool, label string) {
	if !c {
		verifRes.Failed = append(verifRes.Failed, label)
	}
}
func verifReach(label string) { verifRes.Reached = append(verifRes.Reached, label) }
func verifChoose(name string, n int) int {
	return int(verifLookupU64(verifInputName(name)))
}
func verifThorough() bool { return os.Getenv("VERIF_TIER") == "thorough" }
func verifSymbolic() bool { return false }

func verifAnd(cs ...bool) bool {
	for _, c := range cs {
		if !c {
			return false
		}
	}
	return true
}
func verifOr(cs ...bool) bool {
	for _, c := range cs {
		if c {
			return true
		}
	}
	return false
}
func verifImplies(a, b bool) bool { return !a || b }
func verifBytesEq(a, b []byte) bool {
	return (a == nil) == (b == nil) && bytes.Equal(a, b)
}

// ---------- database ----------

func verifMust(err error) {
	if err != nil {
		panic(fmt.Sprintf("verif native setup: %v", err))
	}
}

func verifNewDB(name string, inMemory bool, nColls, nDocs, nSpare int) *sql.DB {
	id := len(verifDBs)
	pfx := fmt.Sprintf("db%d", id)
	url := InMemoryURL
	if !inMemory {
		dir, err := os.MkdirTemp("", "verifdb")
		verifMust(err)
		os.Remove(dir)
		url = uriFromPath(dir)
	}
	b, err := OpenBucket(url, fmt.Sprintf("verif_%s_%d_%d", name, os.Getpid(), id), CreateNew)
	verifMust(err)
	db := b.sqliteDB
	uuid, _ := verifLookup(pfx + ".bucket.uuid")
	_, err = db.Exec(`UPDATE bucket SET name=?1, uuid=?2, lastCas=?3`, name, uuid, int64(verifLookupU64(pfx+".bucket.lastCas")))
	verifMust(err)
	_, err = db.Exec(`UPDATE collections SET lastCas=?1 WHERE id=1`, int64(verifLookupU64(pfx+".coll0.lastCas")))
	verifMust(err)
	for k := 1; k < nColls; k++ {
		_, err = db.Exec(`INSERT INTO collections (id,scope,name,lastCas) VALUES (?1,?2,?3,?4)`, k+1, "sc", "c"+string(rune('0'+k)),
			int64(verifLookupU64(fmt.Sprintf("%s.coll%d.lastCas", pfx, k))))
		verifMust(err)
	}
	for i := 0; i < nDocs; i++ {
		p := fmt.Sprintf("%s.doc%d", pfx, i)
		if !verifLookupBool(p + ".present") {
			continue
		}
		var xattrs, value []byte
		if !verifLookupBool(p + ".xattrs.null") {
			v, _ := verifLookup(p + ".xattrs")
			xattrs = []byte(v)
		}
		if !verifLookupBool(p + ".value.null") {
			v, _ := verifLookup(p + ".value")
			value = []byte(v)
		}
		key, _ := verifLookup(p + ".key")
		_, err = db.Exec(`INSERT INTO documents (id,collection,key,cas,exp,xattrs,isJSON,value,tombstone,revSeqNo) VALUES (?1,?2,?3,?4,?5,?6,?7,?8,?9,?10)`,
			i+1, int64(verifLookupU64(p+".collection")), key, int64(verifLookupU64(p+".cas")), int64(verifLookupU64(p+".exp")),
			xattrs, int64(verifLookupU64(p+".isJSON")), value, int64(verifLookupU64(p+".tombstone")), int64(verifLookupU64(p+".revSeqNo")))
		verifMust(err)
	}
	// AUTOINCREMENT counters as in the model (next id = slots + 1)
	for _, tn := range [][2]interface{}{{"documents", nDocs}, {"collections", nColls}} {
		res, err := db.Exec(`UPDATE sqlite_sequence SET seq=?1 WHERE name=?2`, tn[1], tn[0])
		verifMust(err)
		if n, _ := res.RowsAffected(); n == 0 {
			_, err = db.Exec(`INSERT INTO sqlite_sequence (name,seq) VALUES (?2,?1)`, tn[1], tn[0])
			verifMust(err)
		}
	}
	verifDBs = append(verifDBs, &verifNativeDB{db: db, nDocs: nDocs, nColls: nColls, bucket: b})
	return db
}

func verifNative(db *sql.DB) *verifNativeDB {
	for _, d := range verifDBs {
		if d.db == db {
			return d
		}
	}
	panic("verif: unknown db")
}

func verifDocSlots(db *sql.DB) int { return verifNative(db).nDocs }

func verifScanDoc(row *sql.Row) verifDoc {
	var d verifDoc
	var exp, isJSON, tomb, rev sql.NullInt64
	err := row.Scan(&d.ID, &d.Coll, &d.Key, &d.Cas, &exp, &d.Xattrs, &isJSON, &d.Value, &tomb, &rev)
	if err == sql.ErrNoRows {
		return verifDoc{}
	}
	verifMust(err)
	d.Present = true
	d.Exp, d.IsJSON, d.Tombstone, d.Rev = exp.Int64, isJSON.Int64, tomb.Int64, rev.Int64
	return d
}

const verifDocCols = `id,collection,key,cas,exp,xattrs,isJSON,value,tombstone,revSeqNo`

func verifDocSlot(db *sql.DB, i int) verifDoc {
	return verifScanDoc(db.QueryRow(`SELECT `+verifDocCols+` FROM documents WHERE id=?1`, i+1))
}
func verifGetDoc(db *sql.DB, coll int64, key string) verifDoc {
	return verifScanDoc(db.QueryRow(`SELECT `+verifDocCols+` FROM documents WHERE collection=?1 AND key=?2`, coll, key))
}
func verifBucketLastCas(db *sql.DB) int64 {
	var v int64
	verifMust(db.QueryRow(`SELECT lastCas FROM bucket`).Scan(&v))
	return v
}
func verifCollLastCas(db *sql.DB, id int64) int64 {
	var v sql.NullInt64
	err := db.QueryRow(`SELECT lastCas FROM collections WHERE id=?1`, id).Scan(&v)
	if err == sql.ErrNoRows {
		return 0
	}
	verifMust(err)
	return v.Int64
}

func verifDumpTable(db *sql.DB, table string) []string {
	rows, err := db.Query(`SELECT * FROM ` + table + ` ORDER BY rowid`)
	verifMust(err)
	defer rows.Close()
	cols, _ := rows.Columns()
	var out []string
	for rows.Next() {
		vals := make([]interface{}, len(cols))
		ptrs := make([]interface{}, len(cols))
		for i := range vals {
			ptrs[i] = &vals[i]
		}
		verifMust(rows.Scan(ptrs...))
		var sb strings.Builder
		for i, v := range vals {
			fmt.Fprintf(&sb, "%s=%#v|", cols[i], v)
		}
		out = append(out, sb.String())
	}
	return out
}

var verifTables = []string{"bucket", "collections", "documents", "designDocs", "views", "mapped"}

func verifSnapshot(db *sql.DB) int {
	s := map[string][]string{}
	for _, t := range verifTables {
		s[t] = verifDumpTable(db, t)
	}
	verifSnaps = append(verifSnaps, s)
	return len(verifSnaps) - 1
}

func verifSameRows(a, b []string) bool {
	if len(a) != len(b) {
		return false
	}
	for i := range a {
		if a[i] != b[i] {
			return false
		}
	}
	return true
}

func verifSameDocsExcept(db *sql.DB, snap int, coll int64, key string) bool {
	skip := fmt.Sprintf("collection=%#v|key=%#v|", coll, key)
	filter := func(rows []string) []string {
		var out []string
		for _, r := range rows {
			if !strings.Contains(r, skip) {
				out = append(out, r)
			}
		}
		return out
	}
	return verifSameRows(filter(verifSnaps[snap]["documents"]), filter(verifDumpTable(db, "documents")))
}
func verifSameTable(db *sql.DB, snap int, table string) bool {
	return verifSameRows(verifSnaps[snap][table], verifDumpTable(db, table))
}
func verifSameDB(db *sql.DB, snap int) bool {
	for _, t := range verifTables {
		if !verifSameTable(db, snap, t) {
			return false
		}
	}
	return true
}
func verifTxnOpen(db *sql.DB) bool { return false }

// ---------- xattrs / JSON ----------

func verifXattrUniverse(n int) []string {
	var out []string
	for i := 0; i < n; i++ {
		out = append(out, verifStr(fmt.Sprintf("xu%d", i)))
	}
	verifUniv = out
	return out
}

func verifXattrMap(x []byte) map[string]json.RawMessage {
	if x == nil {
		return nil
	}
	var m map[string]json.RawMessage
	if json.Unmarshal(x, &m) != nil {
		return nil
	}
	return m
}
func verifXattrHas(x []byte, name string) bool {
	_, ok := verifXattrMap(x)[name]
	return ok
}
func verifXattrGet(x []byte, name string) []byte {
	v, ok := verifXattrMap(x)[name]
	if !ok {
		return nil
	}
	return []byte(v)
}
func verifJSONValid(x []byte) bool { return len(x) > 0 && json.Valid(x) }
func verifJSONCanon(x []byte) []byte {
	var v interface{}
	if json.Unmarshal(x, &v) != nil {
		return []byte("!invalid")
	}
	out, _ := json.Marshal(v)
	return out
}
func verifXattrsWellFormed(x []byte) bool {
	if x == nil {
		return true
	}
	if !json.Valid(x) {
		return false
	}
	if string(x) == "null" {
		return true
	}
	var m map[string]json.RawMessage
	if json.Unmarshal(x, &m) != nil {
		return false
	}
	for k, v := range m {
		found := false
		for _, u := range verifUniv {
			if u == k {
				found = true
			}
		}
		if !found {
			verifRes.Notes = append(verifRes.Notes, "xattr name outside universe: "+k)
		}
		if !bytes.Equal(verifJSONCanon(v), v) {
			return false
		}
	}
	return true
}
func verifEncodeValueWithXattrs(body, xattrs []byte) []byte {
	m := verifXattrMap(xattrs)
	var names []string
	for k := range m {
		names = append(names, k)
	}
	sort.Strings(names)
	var xs []sgbucket.Xattr
	for _, k := range names {
		xs = append(xs, sgbucket.Xattr{Name: k, Value: m[k]})
	}
	return sgbucket.EncodeValueWithXattrs(body, xs...)
}

func verifCut(fn string) {}
func verifIsSystemXattr(u string) bool { return u != "" && u[0] == '_' }

func verifConcat(a, b []byte) []byte { return append(append([]byte{}, a...), b...) }
func verifIsCounter(b []byte, n uint64) bool {
	if b == nil {
		return false
	}
	v, err := strconv.ParseUint(string(b), 10, 64)
	return err == nil && v == n
}

var verifSnapColl = map[int]map[int64]int64{}

func verifCollLastCasAt(db *sql.DB, snap int, id int64) int64 {
	for _, r := range verifSnaps[snap]["collections"] {
		if strings.HasPrefix(r, fmt.Sprintf("id=%#v|", id)) {
			i := strings.Index(r, "lastCas=")
			var v int64
			fmt.Sscanf(r[i+len("lastCas="):], "%d", &v)
			return v
		}
	}
	return 0
}

func verifPrefer(c bool) {}

func verifIfI64(c bool, a, b int64) int64 {
	if c {
		return a
	}
	return b
}

func verifSameEncoded(a, b []byte) bool {
	if (a == nil) != (b == nil) {
		return false
	}
	ba, xa, ea := sgbucket.DecodeValueWithAllXattrs(a)
	bb, xb, eb := sgbucket.DecodeValueWithAllXattrs(b)
	if ea != nil || eb != nil {
		return bytes.Equal(a, b)
	}
	if !bytes.Equal(ba, bb) || len(xa) != len(xb) {
		return false
	}
	for k, v := range xa {
		if w, ok := xb[k]; !ok || !bytes.Equal(v, w) {
			return false
		}
	}
	return true
}
func verifCount(cs ...bool) int {
	n := 0
	for _, c := range cs {
		if c {
			n++
		}
	}
	return n
}

func verifTimerArmed(t *time.Timer) bool { return t != nil } // a fired timer cannot be told from an armed one natively
func verifTimerWithin(t *time.Timer, exp uint32) bool { return verifTimerArmed(t) }
func verifCommitCount(db *sql.DB) int                 { return -1 }

func verifFaults(db *sql.DB, budget int) {}

func verifRegisterStore(db *sql.DB, dsnPath string) {}
func verifStoreExists(dsnPath string) bool {
	_, err := os.Stat(dsnPath)
	return err == nil
}
func verifDBClosed(db *sql.DB) bool { return db == nil || db.Ping() != nil }
func verifFSSet(path string, exists bool) {
	if exists {
		os.MkdirAll(path, 0o700)
	} else {
		os.RemoveAll(path)
	}
}

func verifExplore(preemptions int) {}
// verifJoin: wait for background goroutines to go quiet: every registered feed queue empty
// and the number of running feeds unchanged for 200 ms (at most 5 s).
func verifJoin() {
	deadline := time.Now().Add(5 * time.Second)
	time.Sleep(50 * time.Millisecond)
	stable, last := 0, int32(-1)
	for time.Now().Before(deadline) {
		n := atomic.LoadInt32(&activeFeedCount)
		if verifFeedQueuesEmpty() && n == last {
			stable++
		} else {
			stable = 0
		}
		last = n
		if stable >= 8 {
			return
		}
		time.Sleep(25 * time.Millisecond)
	}
}

func verifFeedQueuesEmpty() bool {
	if cluster == nil {
		return true
	}
	cluster.lock.Lock()
	var bs []*Bucket
	for _, b := range cluster.buckets {
		bs = append(bs, b)
	}
	cluster.lock.Unlock()
	for _, b := range bs {
		b.mutex.Lock()
		var feeds []*dcpFeed
		for _, fs := range b.collectionFeeds {
			feeds = append(feeds, fs...)
		}
		b.mutex.Unlock()
		for _, f := range feeds {
			if f == nil {
				continue
			}
			f.events.cond.L.Lock()
			n := 0
			if f.events.list != nil {
				n = f.events.list.Len()
			}
			f.events.cond.L.Unlock()
			if n > 0 {
				return false
			}
		}
	}
	return true
}
func verifLiveThreads() int        { time.Sleep(100 * time.Millisecond); return int(atomic.LoadInt32(&activeFeedCount)) }
func verifFireTimers() int         { return 0 }

func verifDocSlotAny(db *sql.DB, i int) verifDoc {
	return verifScanDoc(db.QueryRow(`SELECT `+verifDocCols+` FROM documents ORDER BY id LIMIT 1 OFFSET ?1`, i))
}

func verifDoneClosed(ch chan struct{}) bool {
	select {
	case _, ok := <-ch:
		return !ok
	default:
		return false
	}
}

func verifPropUniverse(n int, sample map[string]any, depth int) []string {
	var out []string
	for i := 0; i < n; i++ {
		out = append(out, verifStr(fmt.Sprintf("pu%d", i)))
	}
	return out
}
func verifObjMap(x []byte) (map[string]json.RawMessage, bool) {
	if x == nil || string(x) == "null" {
		return nil, false
	}
	var m map[string]json.RawMessage
	if json.Unmarshal(x, &m) != nil {
		return nil, false
	}
	return m, true
}
func verifObjIs(x []byte) bool { _, ok := verifObjMap(x); return ok }
func verifObjHas(x []byte, p string) bool {
	m, _ := verifObjMap(x)
	_, ok := m[p]
	return ok
}
func verifObjGet(x []byte, p string) []byte {
	m, _ := verifObjMap(x)
	v, ok := m[p]
	if !ok {
		return nil
	}
	return verifJSONCanon(v)
}
func verifObjWellFormed(x []byte) bool { return true }

func verifMapSource(src string)       {}
func verifMapEmits(d verifDoc) bool   { return false }
func verifMapKey(d verifDoc) []byte   { return nil }
func verifMapValue(d verifDoc) []byte { return nil }
func verifCollLess(a, b []byte) bool  { return false }
func verifAnyJSON(v any) []byte       { b, _ := json.Marshal(v); return b }
func verifSymOnly()                   {}

func verifRevidText(rev int64) []byte { return []byte(fmt.Sprintf(`"%d"`, rev)) }

func verifXattrsBlob(name string) []byte { return verifBytes(name) }

func verifMacroCasJSON(cas uint64) []byte  { b, _ := json.Marshal(casAsString(cas)); return b }
func verifMacroCrcJSON(body []byte) []byte { b, _ := json.Marshal(encodedCRC32c(body)); return b }
